#!/bin/bash
# usage: tools_sweep2.sh <first-seed> <last-seed> <check> [<check>...]   -- selected checks over a range of seeds
cd "$(dirname "$0")"
OUT=${SWEEP_OUT:-$PWD/sweep-out}; mkdir -p $OUT/evidence $OUT/replays
a=$1; b=$2; shift 2
for s in $(seq $a $b); do
  for p in "$@"; do
    VERIF_SEED=$s VERIF_EVIDENCE_DIR=$OUT/evidence VERIF_REPLAY_DIR=$OUT/replays ./check $p --tier quick > $OUT/$p-$s.log 2>&1
    rc=$?
    echo "seed=$s $p exit=$rc $(grep -v conda $OUT/$p-$s.log | tail -1)"
    if [ $rc -ne 0 ]; then grep "VIOLATION\|signature\|HARNESS" $OUT/$p-$s.log | head -6; fi
  done
done
