import json
NA = {
 "C02": "pure function of the input graph (accept/raise depends on shape only); no schedule, fault, interleaving or history in the statement -- deciding it is input generation / small-scope enumeration, a different technique (DESIGN 5, C02). STAGE-RAISED counts are reported as reach information only.",
 "C03": "predicate on the final hierarchy of one input; nothing in it varies with a schedule or fault (DESIGN 5, C03).",
 "C05": "before/after relation on one input with no schedule or fault; its history-dependent fragments are decided under C18 (overwrite by name clash) and C14 (an edit changes no other block) (DESIGN 5, C05).",
 "C09": "pure function of a code object checked against dis/opcode metadata; 'configurations' are interpreter binaries (only 3.12 can import the package here), not something a scheduler varies (DESIGN 5, C09).",
 "C10": "static census of one output tree, by construction independent of any execution or schedule (DESIGN 5, C10).",
 "C11": "pure function of the input source; the search is enumeration of ast node types x positions (DESIGN 5, C11).",
 "C13": "pure graph queries compared with path-based definitions by enumeration; no schedule, fault or history (DESIGN 5, C13).",
 "C16": "pure function of one (sub)graph; no schedule, fault or history in the statement (DESIGN 5, C16).",
 "C17": "pure function of one graph checked on DOT text; no schedule, fault or history (DESIGN 5, C17).",
}
CLAIMED = {
 "C01": ("cosim", "COSIM: W0 (original graph = reference model), W1 (by-name walker) and W2 (region-wise walker) stepped in lockstep under seeded, coverage-guided decision schedules at every stage prefix; any divergence in the sequence of original blocks, a walk that cannot continue, or a stop at the wrong place is a violation. Sampling of graphs and schedules, not enumeration.", "4.3, 5 C01",
         "seeded lockstep co-simulation of restructured graph vs original under sampled decision schedules"),
 "C04": ("cosim", "COSIM: by-name walk and region-wise walk must visit the same leaves on every simulated schedule at every stage prefix, plus the six state invariants of the statement evaluated on every hierarchy the simulated pipeline histories reach.", "4.3, 5 C04",
         "seeded lockstep co-simulation of two walkers + state invariants at every stage prefix"),
 "C06": ("cosim", "COSIM: on every simulated path every branching synthetic block must find its control variable assigned (since its last run, for latches) with a value in its table that maps to one of its successors; table/successor agreement checked at every stage prefix; a by-name walk that has to be abandoned at a dangling name is followed up over the flattened hierarchy (flat re-walk).", "4.3, 5 C06",
         "seeded simulation of the control-variable machine along sampled decision schedules"),
 "C07": ("envsim", "ENVSIM: the regenerated function runs against a seeded environment that schedules every external response and injects exceptions / empty and short iterables; its interaction history and outcome must equal those of the original function under CPython (reference model); pipeline failures other than NotImplementedError are violations. Mismatches are attributed to a known finding only when the observed behaviour equals that of an executable model of the known desugaring defects (sim/defectmodel.py).", "4.4, 5 C07",
         "deterministic simulation of generated code against a fault-injecting environment, refinement vs CPython"),
 "C08": ("envsim", "ENVSIM: the block-by-block interpreter over the CFG built from source runs against the same fault-injecting environment and must produce the history and outcome of the original function. The last sentence of the statement (static census of statements/pruning) is not decided.", "4.4, 5 C08",
         "deterministic simulation of the CFG interpreter against a fault-injecting environment, refinement vs CPython"),
 "C12": ("hashsim", "HASHSIM: a fleet of child interpreters with seed-derived PYTHONHASHSEED and seed-derived prehistories executes the same jobs; all stage-by-stage canonical dumps (name- and insertion-order-sensitive) must coincide.", "4.1, 5 C12",
         "deterministic simulation of many processes with controlled hash seed and job prehistory; agreement oracle"),
 "C14": ("histsim", "HISTSIM: seeded histories of edit operations (with name requests and restarts interleaved) on flat and partly restructured graphs, each edit checked against the M-arcs reference model derived sentence by sentence from the statement; control-block inserts additionally path-checked by co-simulation against genesis.", "4.2, 5 C14",
         "seeded operation histories against a reference model, with restart faults"),
 "C15": ("histsim", "HISTSIM: write = durable state, read = restart; restarts (dict / YAML, single and chained) injected at seed-chosen points of stage/edit histories; the re-read hierarchy must equal the live one field by field (M-canon) and re-writing must give the same dictionary.", "4.2, 5 C15",
         "crash-restart fault injection through the serialised form at arbitrary history points"),
 "C18": ("histsim", "HISTSIM: histories mixing name requests on the generator reached through any (sub)graph, stages, edits and restart faults; every name handed out (observed by class-level wrappers) must be new w.r.t. names issued since the last restart and names present in the hierarchy; no block overwritten through a name clash.", "4.2, 5 C18",
         "seeded interleavings of name requests, stages and restart faults against a set model"),
}
BUILT = ["C01","C04","C06","C07","C08","C12","C14","C15","C18"]
checks=[]
na=[{"property_id":k,"reason":v} for k,v in sorted(NA.items())]
for pid,(eng,text,ref,tech) in sorted(CLAIMED.items()):
    if pid not in BUILT:
        na.append({"property_id":pid,"reason":"claimed in DESIGN.md (engine %s) but the check is not built yet; listed here until it is"%eng})
        continue
    checks.append({
      "property_id":pid,
      "quick_cmd":"./check %s --tier quick"%pid,
      "thorough_cmd":"./check %s --tier thorough"%pid,
      "evidence_file":"/verif/evidence/%s.json"%pid,
      "replay_cmd_template":"./check %s --replay {path}"%pid,
      "engine":eng,
      "level_claimed":{"category":"exploration","text":text,"design_ref":ref},
      "level_note":"Trusted: the harness's reading of the statement (walkers / models / interpreter in /verif/sim), CPython 3.12, seeded sampling (a clean batch is evidence, not proof). Real code: all of numba_scfg from /repo's working tree, no hooks.",
      "technique":tech,
    })
na.sort(key=lambda e:e["property_id"])
m={"version":1,
   "setup_cmd":"/venv/bin/python -s -c \"import os,sys; sys.path.insert(0,'/repo'); import numba_scfg, yaml; assert os.path.realpath(numba_scfg.__file__).startswith('/repo/'), numba_scfg.__file__; os.makedirs('/verif/evidence',exist_ok=True); os.makedirs('/verif/replays',exist_ok=True); print('setup ok', numba_scfg.__file__)\"",
   "hooks":{"guard":"NUMBA_SCFG_VERIF","enable":"no hooks exist: checks import numba_scfg straight from /repo's working tree (PYTHONPATH=/repo); the guard name is reserved only","baseline_off_cmd":"cd /repo && /venv/bin/python -m pytest -ra -q -p no:cacheprovider --timeout=900 --continue-on-collection-errors","source_commits":[],"add_only":True},
   "engines":[
     {"name":"simkit","path":"/verif/sim","serves_properties":sorted(CLAIMED),"kind_free_text":"own seeded deterministic simulator: Rng stream splitter, child-interpreter nodes with planned PYTHONHASHSEED, event-log digests, minimiser, replay"},
     {"name":"COSIM","path":"/verif/sim/cosim.py","serves_properties":["C01","C04","C06"],"kind_free_text":"lockstep walkers under seeded decision schedules"},
     {"name":"HISTSIM","path":"/verif/sim/histsim.py","serves_properties":["C14","C15","C18"],"kind_free_text":"operation histories with restart faults against reference models"},
     {"name":"ENVSIM","path":"/verif/sim/envsim.py","serves_properties":["C07","C08"],"kind_free_text":"generated code vs fault-injecting simulated environment"},
     {"name":"HASHSIM","path":"/verif/sim/hashsim.py","serves_properties":["C12"],"kind_free_text":"fleet of interpreters with controlled hash seed and prehistory"}],
   "checks":checks,
   "notes":"Technique family: deterministic simulation with fault injection. See DESIGN.md section 0 for the verdict per property. Exit codes: 0 held, 1 violation, 2 harness error.",
   "not_applicable":na}
json.dump(m,open('/verif/MANIFEST.json','w'),indent=1)
