#!/venv/bin/python
"""(Re)generate /verif/mutants/*.patch: the realistic changes listed in DESIGN
section 5, as unified diffs against /repo's current tree.  Three candidates
that turned out to be equivalent inside the input domain were dropped (DESIGN
8.8): a `break` after the first rename of a header in an entry (a header occurs
once among distinct successors), table keys starting at 1 on both the
assignment and the table side, `[:1]` of a backedge tuple that never has two
entries."""
import os, shutil, subprocess, sys
T = "numba_scfg/core/transformations.py"
S = "numba_scfg/core/datastructures/scfg.py"
B = "numba_scfg/core/datastructures/basic_block.py"
A = "numba_scfg/core/datastructures/ast_transforms.py"
M = {
 # ---- C01
 "C01-exit-assignment-wrong-value": (T, "                        variable_assignment[exit_variable] = reverse_lookup(\n                            exit_value_table, jt\n                        )",
                                        "                        variable_assignment[exit_variable] = reverse_lookup(\n                            exit_value_table, exit_blocks[0]\n                        )"),
 "C01-latch-table-swapped": (T, "            i: j for i, j in enumerate((loop_head, synth_exit))", "            i: j for i, j in enumerate((synth_exit, loop_head))"),
 "C01-no-update-exiting": (T, "        if isinstance(entry, RegionBlock):\n            entry = update_exiting(entry, region_header, region_name)", "        if False and isinstance(entry, RegionBlock):\n            entry = update_exiting(entry, region_header, region_name)"),
 "C01-insert-block-appends": (S, "                    if new_name not in jt:\n                        jt[jt.index(s)] = new_name", "                    if new_name not in jt:\n                        jt.remove(s)\n                        jt.append(new_name)"),
 "C01-backarc-header-lookup-first": (T, "                        variable_assignment[exit_variable] = reverse_lookup(\n                            header_value_table, jt\n                        )", "                        variable_assignment[exit_variable] = reverse_lookup(\n                            header_value_table, headers[0]\n                        )"),
 # ---- C04
 "C04-update-exiting-not-recursive": (T, "    if isinstance(region_exiting_block, RegionBlock):\n        region_exiting_block = update_exiting(", "    if False and isinstance(region_exiting_block, RegionBlock):\n        region_exiting_block = update_exiting("),
 "C04-no-replace-exiting": (T, "    if region_exiting == parent_region.exiting:\n        parent_region.replace_exiting(region_name)", "    if False and region_exiting == parent_region.exiting:\n        parent_region.replace_exiting(region_name)"),
 "C04-no-replace-header": (T, "    if region_header == parent_region.header:\n        parent_region.replace_header(region_name)", "    if False and region_header == parent_region.header:\n        parent_region.replace_header(region_name)"),
 "C04-no-parent-fixup": (T, "        if isinstance(v, RegionBlock):\n            object.__setattr__(v, \"parent_region\", region)", "        if False and isinstance(v, RegionBlock):\n            object.__setattr__(v, \"parent_region\", region)"),
 "C04-region-raw-targets": (T, "        _jump_targets=scfg[region_exiting].jump_targets,\n        backedges=(),\n        kind=region_kind,", "        _jump_targets=scfg[region_exiting]._jump_targets,\n        backedges=(),\n        kind=region_kind,"),
 "C14-reroute-skips-nested-exiting": (S, "        if isinstance(block, RegionBlock):\n            assert block.subregion is not None\n            exiting = block.subregion.graph.pop(block.exiting)\n            block.subregion.add_block(\n                SCFG._reroute(exiting, new_name, successors)\n            )",
                                          "        if isinstance(block, RegionBlock):\n            assert block.subregion is not None\n            exiting = block.subregion.graph.pop(block.exiting)\n            if isinstance(exiting, RegionBlock):\n                block.subregion.add_block(exiting)\n                return block\n            block.subregion.add_block(\n                SCFG._reroute(exiting, new_name, successors)\n            )"),
 # ---- C06
 "C06-no-backedge-var-on-exit-arc": (T, "                    variable_assignment[backedge_variable] = reverse_lookup(\n                        backedge_value_table,\n                        (\n                            synth_exit\n                            if needs_synth_exit\n                            else next(iter(exit_blocks))\n                        ),\n                    )",
                                         "                    if not needs_synth_exit or jt != exit_blocks[-1]:\n                        variable_assignment[backedge_variable] = (\n                            reverse_lookup(\n                                backedge_value_table,\n                                (\n                                    synth_exit\n                                    if needs_synth_exit\n                                    else next(iter(exit_blocks))\n                                ),\n                            )\n                        )"),
 "C06-no-exit-var-on-backarc-unified": (T, "                    if needs_synth_exit or headers_were_unified:", "                    if needs_synth_exit and headers_were_unified:"),
 "C06-table-kept-on-retarget": (B, "                for k, v in old_branch_value_table.items():\n                    if v == target:\n                        new_branch_value_table[k] = new_target", "                for k, v in old_branch_value_table.items():\n                    if v == target:\n                        new_branch_value_table[k] = (\n                            new_target if idx == 0 else v\n                        )"),
 # ---- C07
 "C07-continue-to-exit-in-nested": (A, "        if self.is_continue():\n            self.set_jump_targets(head_index)", "        if self.is_continue():\n            self.set_jump_targets(\n                head_index if len(self.instructions) < 3 else exit_index\n            )"),
 "C07-latch-not-negated-when-unified": (A, "                    ast.UnaryOp(ast.Not(), ast.Name(block.variable)),", "                    ast.UnaryOp(ast.Not(), ast.Name(block.variable))\n                    if len(self.region_stack) < 4\n                    else ast.Name(block.variable),"),
 "C07-if-cascade-drops-last-value": (A, "                                    ast.Constant(i) for i in reverse[current]", "                                    ast.Constant(i) for i in reverse[current][:2]"),
 "C07-return-value-dropped-in-loop-else": (A, "                        (ast.Constant(None) if val is None else val),", "                        (\n                            ast.Constant(None)\n                            if val is None or len(self.region_stack) > 5\n                            else val\n                        ),"),
 # ---- C08
 "C08-or-operands-swapped-when-3plus": (A, "                        [node.values[0], tail_node],", "                        [node.values[0], tail_node]\n                        if len(node.values) < 4\n                        else [tail_node, node.values[0]],"),
 "C08-while-else-reached-from-break": (A, "        self.loop_stack.append(LoopIndices(head_index, exit_index))\n\n        # Recurs into the body of the while statement.", "        self.loop_stack.append(\n            LoopIndices(head_index, else_index if node.orelse else exit_index)\n        )\n\n        # Recurs into the body of the while statement."),
 "C08-elif-else-sealed-to-head": (A, "        # After recursion, current_block may need a jump target.\n        self.seal_block(enif_index)\n\n        # Create a new block and assign it to the be the current_block", "        # After recursion, current_block may need a jump target.\n        self.seal_block(\n            enif_index\n            if len(self.loop_stack) < 2\n            else self.loop_stack[-1].head\n        )\n\n        # Create a new block and assign it to the be the current_block"),
 # ---- C12
 "C12-loop-iteration-unsorted": (T, "    for name in sorted(loop):", "    for name in loop:"),
 "C12-headers-unsorted": (S, "        return sorted(headers), sorted(entries)", "        return list(headers), list(entries)"),
 "C12-exits-unsorted": (S, "        return sorted(exiting), sorted(exits)", "        return list(exiting), list(exits)"),
 "C12-control-arcs-unsorted": (S, "            for s in sorted(\n                set(block.jump_targets).intersection(successors)\n            ):", "            for s in set(block.jump_targets).intersection(successors):"),
 "C12-region-members-unsorted": (T, "        {name: scfg.graph[name] for name in sorted(region_blocks)},", "        {name: scfg.graph[name] for name in region_blocks},"),
 "C12-shared-default-counters": (S, "    kinds: dict[str, int] = field(default_factory=dict)", "    kinds: dict[str, int] = field(default_factory=lambda: _SHARED_KINDS)"),
 # ---- C14
 "C14-one-assignment-for-two-arcs": (S, "            for s in sorted(\n                set(block.jump_targets).intersection(successors)\n            ):\n                synth_assign = self.name_gen.new_block_name(SYNTH_ASSIGN)", "            synth_assign = None\n            for s in sorted(\n                set(block.jump_targets).intersection(successors)\n            ):\n                if synth_assign is not None:\n                    jt[jt.index(s)] = synth_assign\n                    continue\n                synth_assign = self.name_gen.new_block_name(SYNTH_ASSIGN)"),
 "C14-join-returns-single-exit": (S, "        if len(return_nodes) > 1:", "        if len(return_nodes) >= 1 and len(self.graph) > 6:"),
 "C14-jte-returns-wrong-exit": (S, "            self.insert_SyntheticTail(solo_tail_name, tails, exits)\n            self.insert_SyntheticExit(solo_exit_name, [solo_tail_name], exits)\n            return solo_tail_name, solo_exit_name", "            self.insert_SyntheticTail(solo_tail_name, tails, exits)\n            self.insert_SyntheticExit(solo_exit_name, [solo_tail_name], exits)\n            return solo_tail_name, exits[0]"),
 "C14-multi-arc-pops-wrong": (S, "                    else:\n                        jt.pop(jt.index(s))", "                    else:\n                        jt.pop()"),
 # ---- C15
 "C15-exiting-of-nested-region-lost": (S, "                blocks[key][\"exiting\"] = value.exiting", "                blocks[key][\"exiting\"] = (\n                    value.exiting\n                    if value.parent_region.kind == \"meta\"\n                    else value.header\n                )"),
 "C15-variable-lost-for-exit-branch": (S, "            elif isinstance(value, SyntheticBranch):\n                blocks[key][\"branch_value_table\"] = value.branch_value_table\n                blocks[key][\"variable\"] = value.variable", "            elif isinstance(value, SyntheticBranch):\n                blocks[key][\"branch_value_table\"] = value.branch_value_table\n                if len(value.branch_value_table) < 3:\n                    blocks[key][\"variable\"] = value.variable"),
 "C15-edges-deduplicated": (S, "            edges[key] = [i for i in value._jump_targets]", "            edges[key] = list(dict.fromkeys(sorted(value._jump_targets) if len(value._jump_targets) > 2 else value._jump_targets))"),
 # ---- C18
 "C18-subgraph-own-generator": (T, "        {name: scfg.graph[name] for name in sorted(region_blocks)},\n        name_gen=scfg.name_gen,\n    )", "        {name: scfg.graph[name] for name in sorted(region_blocks)},\n    )"),
 "C18-reserve-off-by-one": (S, "            self.kinds[kind] = max(self.kinds.get(kind, 0), idx + 1)", "            self.kinds[kind] = max(self.kinds.get(kind, 0), idx)"),
 "C18-reserve-skips-regions": (S, "        for block_name, block in self.graph.items():\n            self.name_gen.reserve(block_name)", "        for block_name, block in self.graph.items():\n            if not isinstance(block, RegionBlock):\n                self.name_gen.reserve(block_name)"),
 "C18-region-counter-separate": (S, "            idx = self.kinds[kind]\n            name = str(kind) + \"_region_\" + str(idx)\n            self.kinds[kind] = idx + 1\n        else:\n            idx = 0\n            name = str(kind) + \"_region_\" + str(idx)\n            self.kinds[kind] = idx + 1", "            idx = self.kinds[kind]\n            name = str(kind) + \"_region_\" + str(idx)\n            self.kinds[kind] = idx + 1\n        else:\n            idx = 0\n            name = str(kind) + \"_region_\" + str(idx)\n            self.kinds[kind] = idx"),
}
EXTRA = {"C12-shared-default-counters": (S, "@dataclass(frozen=True)\nclass NameGenerator:", "_SHARED_KINDS: dict[str, int] = {}\n\n\n@dataclass(frozen=True)\nclass NameGenerator:")}
out = "/verif/mutants"
os.makedirs(out, exist_ok=True)
for f in os.listdir(out):
    if f.endswith(".patch"): os.remove(os.path.join(out, f))
bad = 0
for mid, (path, old, new) in sorted(M.items()):
    src = open(os.path.join("/repo", path)).read()
    if src.count(old) != 1:
        print("!! %s: anchor found %d times" % (mid, src.count(old))); bad += 1; continue
    mod = src.replace(old, new)
    if mid in EXTRA:
        p2, o2, n2 = EXTRA[mid]
        assert mod.count(o2) == 1
        mod = mod.replace(o2, n2)
    tmp = "/var/tmp/verif-scratch/mk-%d" % os.getpid()
    os.makedirs(os.path.join(tmp, "a", os.path.dirname(path)), exist_ok=True)
    os.makedirs(os.path.join(tmp, "b", os.path.dirname(path)), exist_ok=True)
    open(os.path.join(tmp, "a", path), "w").write(src)
    open(os.path.join(tmp, "b", path), "w").write(mod)
    d = subprocess.run(["diff", "-u", os.path.join("a", path), os.path.join("b", path)], cwd=tmp, capture_output=True, text=True).stdout
    open(os.path.join(out, mid + ".patch"), "w").write(d)
    shutil.rmtree(tmp)
print("wrote", len(M) - bad, "patches;", bad, "anchors missing")
