#!/bin/bash
# usage: tools_thorough.sh [seed]  -- every claimed check once at the thorough tier (evidence/replays under ./thorough-out)
cd "$(dirname "$0")"
OUT=${SWEEP_OUT:-$PWD/thorough-out}; mkdir -p $OUT/evidence $OUT/replays
S=${1:-20260924}
for p in C12 C14 C15 C18 C07 C08 C01 C04 C06; do
  t0=$(date +%s)
  VERIF_SEED=$S VERIF_EVIDENCE_DIR=$OUT/evidence VERIF_REPLAY_DIR=$OUT/replays timeout 7200 ./check $p --tier thorough > $OUT/$p-$S.log 2>&1
  rc=$?
  echo "seed=$S $p exit=$rc $(( $(date +%s) - t0 ))s $(grep -v conda $OUT/$p-$S.log | tail -1)"
  if [ $rc -ne 0 ]; then grep "VIOLATION\|signature\|HARNESS" $OUT/$p-$S.log | head -8; fi
done
