#!/venv/bin/python
"""Systematic line-level mutation scan of the library against the checks
(DESIGN 8.2, "prove sensitivity").

Phase 1: generate single-line mutants of the four core files with simple
operators, keep those that compile, run the repository's own suite on each (in
parallel); a mutant the suite kills is uninteresting.
Phase 2: for every mutant the suite lets through, run the quick checks that are
relevant for the mutated file (reduced plan) against a scratch copy; record
killed / survived and by which check.

usage: tools_mutscan.py [--sample N] [--seed S] [--out FILE] [--phase2-batches B]
Results: JSON lines in selftest/mutscan.jsonl; summary on stdout.
"""
import argparse
import hashlib
import json
import os
import re
import shutil
import subprocess
import sys
import time
from concurrent.futures import ThreadPoolExecutor

REPO = "/repo"
HERE = os.path.dirname(os.path.abspath(__file__))
SCRATCH = os.environ.get("VERIF_SCRATCH", "/var/tmp/verif-scratch")
# per file: the engine runs that can see a defect there (VERIF_ANY=1 makes one
# engine run report violations of every property it monitors)
FILES = {
    "numba_scfg/core/transformations.py": ["C01", "C07", "C12"],
    "numba_scfg/core/datastructures/scfg.py": ["C01", "C14", "C15", "C07", "C12"],
    "numba_scfg/core/datastructures/basic_block.py": ["C01", "C14", "C07"],
    "numba_scfg/core/datastructures/ast_transforms.py": ["C07", "C12"],
}

OPS = [
    (r"\.jump_targets\b", "._jump_targets"),
    (r"\._jump_targets\b", ".jump_targets"),
    (r"\bsorted\(", "list("),
    (r" == ", " != "),
    (r" != ", " == "),
    (r" not in ", " in "),
    (r"(?<!not) in (?!range)", " not in "),
    (r" and ", " or "),
    (r" or ", " and "),
    (r"\[0\]", "[-1]"),
    (r"\[1\]", "[0]"),
    (r"\[-1\]", "[0]"),
    (r" > 1\b", " > 2"),
    (r" > 2\b", " > 1"),
    (r" >= 2\b", " > 2"),
    (r" == 1\b", " == 2"),
    (r" == 2\b", " == 1"),
    (r"\+ 1\b", "+ 2"),
    (r"\bidx \+ 1\b", "idx"),
    (r"= 0$", "= 1"),
    (r"\bif (?!False and )(.+):$", r"if False and (\1):"),
    (r"\belif (.+):$", r"elif False and (\1):"),
    (r"\bis not None\b", "is None"),
    (r"\bbreak$", "pass"),
    (r"\bcontinue$", "pass"),
    (r"\bheaders\b", "entries"),
    (r"\bexiting_blocks\b", "exit_blocks"),
    (r"\bregion_header\b", "region_exiting"),
    (r"\bhead_index\b", "exit_index"),
    (r"\bmax\(", "min("),
]


def gen_mutants():
    out = []
    for path, checks in FILES.items():
        lines = open(os.path.join(REPO, path)).read().split("\n")
        in_doc = False
        for i, line in enumerate(lines):
            st = line.strip()
            if st.count('"""') == 1:
                in_doc = not in_doc
                continue
            if in_doc or not st or st.startswith("#") or st.startswith('"""') or st.startswith("import ") \
                    or st.startswith("from ") or st.startswith("@") or st.startswith("def ") or st.startswith("class "):
                continue
            code = line.split("  #")[0]
            for k, (pat, rep) in enumerate(OPS):
                for m in re.finditer(pat, code):
                    new = code[:m.start()] + m.expand(rep) + code[m.end():]
                    if new != code:
                        out.append({"file": path, "line": i + 1, "op": k, "old": line, "new": new + line[len(code):],
                                    "checks": checks})
            # statement deletion for simple statements
            if re.match(r"^\s+[A-Za-z_][\w\.\[\]\"']* = ", code) or re.match(r"^\s+[\w\.]+\(.*\)$", code):
                ind = len(line) - len(line.lstrip())
                out.append({"file": path, "line": i + 1, "op": "del", "old": line, "new": " " * ind + "pass",
                            "checks": checks})
    for m in out:
        m["id"] = hashlib.sha256(("%s|%s|%s|%s" % (m["file"], m["line"], m["op"], m["new"])).encode()).hexdigest()[:10]
    return out


def make_copy(m, tag):
    work = os.path.join(SCRATCH, "ms-%d-%s-%s" % (os.getpid(), tag, m["id"]))
    shutil.rmtree(work, ignore_errors=True)
    shutil.copytree(REPO, work, ignore=shutil.ignore_patterns(".git", "__pycache__", "docs", "*.egg-info"))
    p = os.path.join(work, m["file"])
    lines = open(p).read().split("\n")
    assert lines[m["line"] - 1] == m["old"]
    lines[m["line"] - 1] = m["new"]
    open(p, "w").write("\n".join(lines))
    return work


def phase1(m):
    work = make_copy(m, "p1")
    try:
        c = subprocess.run(["/venv/bin/python", "-m", "py_compile", os.path.join(work, m["file"])], capture_output=True)
        if c.returncode != 0:
            return "no-compile"
        env = dict(os.environ, PYTHONPATH=work, PYTHONDONTWRITEBYTECODE="1")
        try:
            t = subprocess.run(["/venv/bin/python", "-m", "pytest", "-q", "-x", "-p", "no:cacheprovider", "--timeout=60",
                                "numba_scfg"], cwd=work, capture_output=True, text=True, timeout=240, env=env)
        except subprocess.TimeoutExpired:
            return "suite-hangs"
        return "suite-passes" if t.returncode == 0 else "suite-kills"
    finally:
        shutil.rmtree(work, ignore_errors=True)


def phase2(m, batches):
    work = make_copy(m, "p2")
    res = {}
    try:
        env = dict(os.environ, VERIF_REPO=work, VERIF_EVIDENCE_DIR=os.path.join(work, "_e"),
                   VERIF_REPLAY_DIR=os.path.join(work, "_r"), VERIF_BATCHES=str(batches), VERIF_MINIMISE_S="5",
                   VERIF_MAX_GROUPS="1", VERIF_ANY="1")
        for prop in m["checks"]:
            if prop == "C12":
                env["VERIF_BATCHES"] = "8"
            else:
                env["VERIF_BATCHES"] = str(batches)
            try:
                c = subprocess.run([os.path.join(HERE, "check"), prop], capture_output=True, text=True, env=env,
                                   cwd=HERE, timeout=900)
                res[prop] = c.returncode
                if c.returncode == 1:
                    sig = [ln.strip() for ln in c.stdout.splitlines() if ln.strip().startswith("signature=")]
                    res["first"] = "%s %s" % (prop, sig[0][:160] if sig else "")
                    break
            except subprocess.TimeoutExpired:
                res[prop] = "timeout"
    finally:
        shutil.rmtree(work, ignore_errors=True)
    return res


def main():
    ap = argparse.ArgumentParser()
    ap.add_argument("--sample", type=int, default=0)
    ap.add_argument("--seed", type=int, default=1)
    ap.add_argument("--out", default=os.path.join(HERE, "selftest", "mutscan.jsonl"))
    ap.add_argument("--phase2-batches", type=int, default=48)
    ap.add_argument("--workers", type=int, default=12)
    ap.add_argument("--phase2-parallel", type=int, default=3)
    ap.add_argument("--only-file", default="", help="only mutate files whose path contains this string")
    ap.add_argument("--retry", help="earlier result file: only re-run phase 2 for the mutants that survived there")
    a = ap.parse_args()
    os.makedirs(SCRATCH, exist_ok=True)
    os.makedirs(os.path.dirname(a.out), exist_ok=True)
    muts = gen_mutants()
    if a.only_file:
        muts = [m for m in muts if a.only_file in m["file"]]
    if a.retry:
        keep = set()
        for ln in open(a.retry):
            r = json.loads(ln)
            if r.get("status") == "survived":
                keep.add(r["id"])
        muts = [m for m in muts if m["id"] in keep]
    muts.sort(key=lambda m: hashlib.sha256(("%d|%s" % (a.seed, m["id"])).encode()).hexdigest())
    if a.sample:
        muts = muts[: a.sample]
    print("mutants: %d" % len(muts), flush=True)
    t0 = time.time()
    if a.retry:
        r1 = ["suite-passes"] * len(muts)
    else:
        with ThreadPoolExecutor(max_workers=a.workers) as ex:
            r1 = list(ex.map(phase1, muts))
    for m, r in zip(muts, r1):
        m["phase1"] = r
    cnt = {}
    for r in r1:
        cnt[r] = cnt.get(r, 0) + 1
    print("phase 1 (%.0fs): %s" % (time.time() - t0, cnt), flush=True)
    surv = [m for m in muts if m["phase1"] == "suite-passes"]
    with open(a.out, "w") as f:
        for m in muts:
            if m["phase1"] != "suite-passes":
                f.write(json.dumps({k: m[k] for k in ("id", "file", "line", "op", "new", "phase1")}) + "\n")
        with ThreadPoolExecutor(max_workers=a.phase2_parallel) as ex2:
            r2 = list(ex2.map(lambda mm: phase2(mm, a.phase2_batches), surv))
        for n, (m, r) in enumerate(zip(surv, r2)):
            m["phase2"] = r
            killed = any(v == 1 for v in r.values())
            m["status"] = "killed" if killed else "survived"
            f.write(json.dumps({k: m[k] for k in ("id", "file", "line", "op", "old", "new", "phase1", "phase2", "status")}) + "\n")
            f.flush()
            print("[%d/%d] %s %s:%d %s | %s" % (n + 1, len(surv), m["status"], m["file"].split("/")[-1], m["line"],
                                                m["new"].strip()[:70], r.get("first", "")), flush=True)
    k = sum(1 for m in surv if m["status"] == "killed")
    print("phase 2 (%.0fs): %d of %d suite-passing mutants killed by the checks" % (time.time() - t0, k, len(surv)))


if __name__ == "__main__":
    main()
