#!/bin/bash
# usage: tools_sweep.sh <first-seed> <last-seed> [tier]   -- runs every claimed check for a range of seeds
# (soak run for false alarms / rare findings; evidence and replays go to ./sweep-out)
cd "$(dirname "$0")"
OUT=${SWEEP_OUT:-$PWD/sweep-out}; mkdir -p $OUT/evidence $OUT/replays
TIER=${3:-quick}
for s in $(seq $1 $2); do
  for p in C01 C04 C06 C07 C08 C12 C14 C15 C18; do
    VERIF_SEED=$s VERIF_EVIDENCE_DIR=$OUT/evidence VERIF_REPLAY_DIR=$OUT/replays ./check $p --tier $TIER > $OUT/$p-$s.log 2>&1
    rc=$?
    echo "seed=$s $p exit=$rc $(grep -v conda $OUT/$p-$s.log | tail -1)"
    if [ $rc -ne 0 ]; then grep "VIOLATION\|signature\|HARNESS" $OUT/$p-$s.log | head -6; fi
  done
done
