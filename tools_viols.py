#!/venv/bin/python
"""List the violating runs of one check (all of them, known or not) whose
signature matches a glob: tools_viols.py <property> '<glob>' [batches]"""
import fnmatch, json, os, sys
if os.environ.get("PYTHONHASHSEED") != "0":
    os.environ["PYTHONHASHSEED"] = "0"
    os.execv(sys.executable, [sys.executable, "-s"] + sys.argv)
sys.path.insert(0, os.path.dirname(os.path.abspath(__file__)))
from sim import driver
prop, pat = sys.argv[1], sys.argv[2]
if len(sys.argv) > 3:
    os.environ["VERIF_BATCHES"] = sys.argv[3]
seed = int(os.environ.get("VERIF_SEED", driver.DEFAULT_SEED))
engine, nb, bs, params = driver._plan(prop, "quick", seed)
eng, rows, viol_rows = driver._run_engine(prop, engine, "quick", seed, nb, bs, params)
n = 0
for row, v in viol_rows:
    if fnmatch.fnmatchcase(v["signature"], pat):
        n += 1
        case = row["case"]
        print("=== seed", row["seed"], v["signature"], "facts", {k: x for k, x in eng.where_facts(case, v).items() if x is True})
        print(case.get("source") or json.dumps(case.get("workload"))[:600])
        print("   detail:", v.get("detail"), "sched:", v.get("schedule"))
print(n, "matching violating runs")
