#!/venv/bin/python
"""Ingest a seeded change produced by a sub-agent: confirm in a scratch copy of
/repo that (1) the patch applies, (2) the repository's suite still passes,
(3) the demonstration fails with the change and passes without, then store it
as /verif/seeded/<id>/ (patch.diff, demo.py, meta.json).

usage: tools_seeded.py <property> <k> [needs-text]
       SEEDED_SRC=/tmp/mut2 SEEDED_ID=<n> tools_seeded.py <property> <k> [needs-text]   (store as <property>-<n>)
"""
import json, os, shutil, subprocess, sys, time

prop, k = sys.argv[1], sys.argv[2]
src = "%s/%s-out" % (os.environ.get("SEEDED_SRC", "/tmp/mut"), prop)
sid = "%s-%s" % (prop, os.environ.get("SEEDED_ID", k))
scratch = "/var/tmp/verif-scratch/ingest-%s" % sid
shutil.rmtree(scratch, ignore_errors=True)
os.makedirs("/var/tmp/verif-scratch", exist_ok=True)
shutil.copytree("/repo", scratch, ignore=shutil.ignore_patterns(".git", "__pycache__", "docs"))
patch = os.path.join(src, "patch%s.diff" % k)
demo = os.path.join(src, "demo%s.py" % k)
notes = os.path.join(src, "notes%s.md" % k)
res = {"property": prop, "id": sid}
try:
    ap = subprocess.run(["patch", "-p1", "-s", "-d", scratch, "-i", patch], capture_output=True, text=True)
    res["patch_applies"] = ap.returncode == 0
    if ap.returncode != 0:
        print("PATCH DOES NOT APPLY", ap.stdout, ap.stderr); sys.exit(1)
    env = dict(os.environ, PYTHONPATH=scratch, PYTHONDONTWRITEBYTECODE="1")
    t = subprocess.run(["/venv/bin/python", "-m", "pytest", "-q", "-p", "no:cacheprovider", "numba_scfg"], cwd=scratch,
                       capture_output=True, text=True, env=env)
    res["suite_with_change"] = t.stdout.strip().splitlines()[-1] if t.stdout.strip() else str(t.returncode)
    res["suite_passes_with_change"] = t.returncode == 0
    imp = subprocess.run(["/venv/bin/python", "-c", "import numba_scfg;print(numba_scfg.__file__)"], cwd="/var/tmp", capture_output=True, text=True, env=env)
    res["imports_from"] = imp.stdout.strip()
    d1 = subprocess.run(["/venv/bin/python", demo], cwd="/var/tmp", capture_output=True, text=True, env=env, timeout=600)
    res["demo_exit_with_change"] = d1.returncode
    res["demo_output_with_change"] = (d1.stdout + d1.stderr)[-600:]
    env0 = dict(os.environ, PYTHONPATH="/repo", PYTHONDONTWRITEBYTECODE="1")
    d0 = subprocess.run(["/venv/bin/python", demo], cwd="/var/tmp", capture_output=True, text=True, env=env0, timeout=600)
    res["demo_exit_without_change"] = d0.returncode
finally:
    shutil.rmtree(scratch, ignore_errors=True)
ok = res["suite_passes_with_change"] and res["demo_exit_with_change"] != 0 and res["demo_exit_without_change"] == 0
print(json.dumps(res, indent=1))
if not ok:
    print("NOT CONFIRMED"); sys.exit(1)
dst = "/verif/seeded/%s" % sid
os.makedirs(dst, exist_ok=True)
shutil.copy(patch, os.path.join(dst, "patch.diff"))
shutil.copy(demo, os.path.join(dst, "demo.py"))
if os.path.exists(notes):
    shutil.copy(notes, os.path.join(dst, "notes.md"))
meta = {"property": prop, "id": sid, "origin": "independent sub-agent given only the property text and a scratch worktree",
        "needs": sys.argv[3] if len(sys.argv) > 3 else "see notes.md",
        "confirmed": {"at_repo_commit": subprocess.run(["git", "-C", "/repo", "rev-parse", "--short", "HEAD"], capture_output=True, text=True).stdout.strip(),
                      "suite_with_change": res["suite_with_change"], "demo_exit_with_change": res["demo_exit_with_change"],
                      "demo_exit_without_change": res["demo_exit_without_change"],
                      "commands": ["cp -r /repo <scratch>; patch -p1 -d <scratch> -i patch.diff",
                                   "cd <scratch> && PYTHONPATH=<scratch> /venv/bin/python -m pytest -q -p no:cacheprovider numba_scfg",
                                   "PYTHONPATH=<scratch> /venv/bin/python demo.py  (exit != 0)",
                                   "PYTHONPATH=/repo /venv/bin/python demo.py  (exit 0)"]}}
json.dump(meta, open(os.path.join(dst, "meta.json"), "w"), indent=1)
print("CONFIRMED ->", dst)
