"""Reducers for workloads (DESIGN 3.3 / 6.2).  Every candidate stays inside the
input domain (closed CFG / parseable function)."""
import ast
import copy

from sim.graphgen import check_closed


def _norm(desc):
    return [[a, k, list(t)] for a, k, t in desc]


def shrink_graph(desc):
    desc = _norm(desc)
    names = [d[0] for d in desc]
    # 1. remove a node, rerouting arcs into it to one of its successors (or dropping them)
    for victim in reversed(names[1:]):
        vt = [d for d in desc if d[0] == victim][0][2]
        options = list(vt) + [None]
        for repl in options:
            if repl == victim:
                continue
            nd = []
            for a, k, tg in desc:
                if a == victim:
                    continue
                ntg = []
                for t in tg:
                    if t == victim:
                        if repl is not None and repl not in ntg and repl not in tg:
                            ntg.append(repl)
                    elif t not in ntg:
                        ntg.append(t)
                nd.append([a, k, ntg])
            if check_closed(nd) is None:
                yield nd
    # 2. remove an arc
    for i, (a, k, tg) in enumerate(desc):
        for j in range(len(tg)):
            nd = _norm(desc)
            nd[i][2] = tg[:j] + tg[j + 1:]
            if check_closed(nd) is None:
                yield nd
    # 3. swap successor order
    for i, (a, k, tg) in enumerate(desc):
        if len(tg) == 2 and tg[0] > tg[1]:
            nd = _norm(desc)
            nd[i][2] = [tg[1], tg[0]]
            if check_closed(nd) is None:
                yield nd
    # 4. plain kind
    if any(k != "basic" for _a, k, _t in desc):
        yield [[a, "basic", list(t)] for a, k, t in desc]


# ---------------------------------------------------------------- source

class _Paths(ast.NodeVisitor):
    """Collect (parent_list, index) of every statement."""

    def __init__(self):
        self.slots = []

    def generic_visit(self, node):
        for field in ("body", "orelse"):
            lst = getattr(node, field, None)
            if isinstance(lst, list):
                for i, st in enumerate(lst):
                    if isinstance(st, ast.stmt):
                        self.slots.append((node, field, i))
        ast.NodeVisitor.generic_visit(self, node)


def _unparse_ok(tree):
    try:
        ast.fix_missing_locations(tree)
        s = ast.unparse(tree)
        ast.parse(s)
        compile(s, "<shrink>", "exec")
        return s
    except Exception:
        return None


def shrink_source(source):
    try:
        base = ast.parse(source)
    except SyntaxError:
        return
    p = _Paths()
    p.visit(base)
    nslots = len(p.slots)
    seen = {source}
    # delete statement / replace compound by its body
    for si in range(nslots - 1, -1, -1):
        for mode in ("delete", "body", "orelse", "noelse"):
            tree = copy.deepcopy(base)
            q = _Paths()
            q.visit(tree)
            node, field, i = q.slots[si]
            lst = getattr(node, field)
            st = lst[i]
            if isinstance(node, ast.Module):
                continue
            if mode == "delete":
                if isinstance(node, ast.FunctionDef) and field == "body" and len(lst) == 1:
                    continue
                del lst[i]
                if not lst and field == "body":
                    lst.append(ast.Pass())
            elif mode == "body":
                if not isinstance(st, (ast.If, ast.While, ast.For)):
                    continue
                lst[i:i + 1] = [s for s in st.body if not isinstance(s, (ast.Break, ast.Continue))] or [ast.Pass()]
            elif mode == "orelse":
                if not isinstance(st, (ast.If, ast.While, ast.For)) or not st.orelse:
                    continue
                lst[i:i + 1] = [s for s in st.orelse if not isinstance(s, (ast.Break, ast.Continue))] or [ast.Pass()]
            elif mode == "noelse":
                if not isinstance(st, (ast.If, ast.While, ast.For)) or not st.orelse:
                    continue
                st.orelse = []
            s = _unparse_ok(tree)
            if s and s not in seen:
                seen.add(s)
                yield s
    # simplify expressions: replace BoolOp / BinOp / Compare / Call by an operand
    class _Exprs(ast.NodeVisitor):
        def __init__(self):
            self.n = 0

        def generic_visit(self, node):
            if isinstance(node, (ast.BoolOp, ast.BinOp, ast.Compare, ast.Call, ast.UnaryOp,
                                 ast.Attribute, ast.Subscript)):
                self.n += 1
            ast.NodeVisitor.generic_visit(self, node)

    cnt = _Exprs()
    cnt.visit(base)
    for target in range(cnt.n):
        for which in range(4):
            tree = copy.deepcopy(base)

            class _Repl(ast.NodeTransformer):
                def __init__(self):
                    self.i = -1
                    self.done = False

                def generic_visit(self, node):
                    if isinstance(node, (ast.BoolOp, ast.BinOp, ast.Compare, ast.Call, ast.UnaryOp,
                                         ast.Attribute, ast.Subscript)):
                        self.i += 1
                        if self.i == target and not self.done:
                            self.done = True
                            ops = []
                            if isinstance(node, ast.BoolOp):
                                ops = list(node.values)
                                if len(node.values) > 2:
                                    ops.append(ast.BoolOp(op=node.op, values=node.values[:-1]))
                            elif isinstance(node, ast.BinOp):
                                ops = [node.left, node.right]
                            elif isinstance(node, ast.Compare):
                                ops = [node.left] + list(node.comparators)
                            elif isinstance(node, ast.Call):
                                ops = list(node.args)
                            elif isinstance(node, ast.UnaryOp):
                                ops = [node.operand]
                            ops.append(ast.Constant(1))
                            if which < len(ops):
                                return ops[which]
                            return node
                    return ast.NodeTransformer.generic_visit(self, node)

            r = _Repl()
            tree = r.visit(tree)
            s = _unparse_ok(tree)
            if s and s not in seen:
                seen.add(s)
                yield s
