"""Hierarchy helpers, canonical dumps (DESIGN 4.1, 4.2 M-canon) and the state
invariants of C04 / C06 (DESIGN section 5)."""
import ast

from numba_scfg.core.datastructures.basic_block import (
    BasicBlock, PythonBytecodeBlock, PythonASTBlock, SyntheticBlock,
    SyntheticAssignment, SyntheticBranch, SyntheticExitingLatch, RegionBlock)

from sim.log import jdigest


def is_region(b):
    return isinstance(b, RegionBlock)


def iter_hier(scfg, owner=None, depth=0):
    """Yield (owner_region_or_None, scfg, name, block, depth) for every block
    and region at every level, graph-dict order, pre-order."""
    if depth > 80:
        raise RecursionError("hierarchy contains itself")
    for name, b in list(scfg.graph.items()):
        yield owner, scfg, name, b, depth
        if is_region(b) and b.subregion is not None:
            yield from iter_hier(b.subregion, b, depth + 1)


def hier_names(scfg):
    return [name for _o, _g, name, _b, _d in iter_hier(scfg)]


def count_kinds(scfg):
    c = {"regions": 0, "branching": 0, "assign": 0, "synthetic": 0, "leaves": 0,
         "maxdepth": 0}
    for _o, _g, _n, b, d in iter_hier(scfg):
        c["maxdepth"] = max(c["maxdepth"], d)
        if is_region(b):
            c["regions"] += 1
            continue
        c["leaves"] += 1
        if isinstance(b, SyntheticBlock):
            c["synthetic"] += 1
        if isinstance(b, SyntheticBranch):
            c["branching"] += 1
        if isinstance(b, SyntheticAssignment):
            c["assign"] += 1
    return c


# ------------------------------------------------------------ payload

def payload_of(b):
    if isinstance(b, PythonBytecodeBlock):
        return ["bc", b.begin, b.end]
    if isinstance(b, PythonASTBlock):
        return ["ast", b.begin, b.end,
                [ast.dump(t) if isinstance(t, ast.AST) else repr(t) for t in b.tree]]
    return None


# ------------------------------------------------------------ ordered dump (C12)

def dump_ordered(scfg):
    """Sensitive to every name and to dict insertion order."""
    out = [["meta", scfg.region.name, scfg.region.kind,
            scfg.region.header, scfg.region.exiting]]
    for name, b in scfg.graph.items():
        out.append(_dump_block(name, b, ordered=True))
    return out


def _dump_block(name, b, ordered):
    rec = [name, b.name, type(b).__name__, list(b._jump_targets),
           list(b.backedges), payload_of(b)]
    if isinstance(b, SyntheticBranch):
        items = list(b.branch_value_table.items())
        if not ordered:
            items = sorted(items, key=repr)
        rec.append(["branch", b.variable, [[k, v] for k, v in items]])
    elif isinstance(b, SyntheticAssignment):
        items = list(b.variable_assignment.items())
        if not ordered:
            items = sorted(items, key=repr)
        rec.append(["assign", [[k, v] for k, v in items]])
    elif is_region(b):
        pr = b.parent_region
        if is_region(pr):
            prd = ["region", pr.name]
        else:
            prd = [type(pr).__name__, pr if isinstance(pr, (str, type(None))) else repr(type(pr))]
        sub = b.subregion
        if sub is None:
            subd = None
        elif ordered:
            subd = dump_ordered(sub)
        else:
            subd = dump_canon(sub)
        rec.append(["region", b.kind, b.header, b.exiting, prd, subd])
    return rec


def digest_ordered(scfg):
    return jdigest(dump_ordered(scfg))


# ------------------------------------------------------------ M-canon (C15)

def dump_canon(scfg, owner=None):
    """Normalised canonical form: keyed by name, insensitive to dict insertion
    order, sensitive to everything C15 lists."""
    out = {}
    for name, b in scfg.graph.items():
        rec = _dump_block(name, b, ordered=False)
        if is_region(b):
            # parent_region must be a RegionBlock carrying the name of the region
            # that contains it and sharing that region's sub-graph
            pr = b.parent_region
            ok = is_region(pr) and pr.subregion is scfg
            if owner is not None:
                ok = ok and pr.name == owner.name
            else:
                ok = ok and pr.name == scfg.region.name
            rec.append(["parent-ok", bool(ok)])
        out[name] = rec
    return out


def canon_fields(scfg):
    """Flat name -> {field: value} map of the whole hierarchy, used to name the
    first differing field of a round-trip mismatch."""
    flat = {}

    def walk(g, owner):
        for name, b in g.graph.items():
            f = {
                "type": type(b).__name__,
                "edges": list(b._jump_targets),
                "backedges": list(b.backedges),
                "payload": payload_of(b),
                "container": owner.name if owner is not None else None,
            }
            if isinstance(b, SyntheticBranch):
                f["variable"] = b.variable
                f["table"] = sorted([[k, v] for k, v in b.branch_value_table.items()], key=repr)
            if isinstance(b, SyntheticAssignment):
                f["assignment"] = sorted([[k, v] for k, v in b.variable_assignment.items()], key=repr)
            if is_region(b):
                f["kind"] = b.kind
                f["header"] = b.header
                f["exiting"] = b.exiting
                pr = b.parent_region
                expect = owner.name if owner is not None else g.region.name
                f["parent_region"] = (
                    "ok" if (is_region(pr) and pr.name == expect and pr.subregion is g)
                    else "bad:%s" % (type(pr).__name__,))
                f["contains"] = sorted(b.subregion.graph.keys()) if b.subregion is not None else None
            if name in flat:
                flat[name + "#dup"] = f
            else:
                flat[name] = f
            if is_region(b) and b.subregion is not None:
                walk(b.subregion, b)

    walk(scfg, None)
    return flat


def first_diff(fa, fb):
    """Return (name, field) of the first difference between two canon_fields
    maps, or None."""
    for name in sorted(set(fa) | set(fb)):
        if name not in fa:
            return name, "block-added"
        if name not in fb:
            return name, "block-missing"
        a, b = fa[name], fb[name]
        order = ["type", "container", "edges", "backedges", "payload", "variable", "table",
                 "assignment", "kind", "header", "exiting", "contains", "parent_region"]
        for k in order:
            if a.get(k) != b.get(k):
                if k == "edges" and sorted(a.get(k) or []) == sorted(b.get(k) or []):
                    return name, "edges-order"
                if k == "backedges" and sorted(a.get(k) or []) == sorted(b.get(k) or []):
                    return name, "backedges-order"
                return name, k
    return None


# ------------------------------------------------------------ state invariants

def _resolves(t, chain):
    """chain: list of graphs innermost first."""
    for g in chain:
        if t in g.graph:
            return True
    return False


def state_invariants(scfg, want=("C04", "C06")):
    """Evaluate the state invariants of DESIGN section 5 (C04 1-6, C06 table/
    successor agreement) on the whole hierarchy.  Returns a list of
    (property, class, where, detail)."""
    out = []
    seen = {}
    c04 = "C04" in want
    c06 = "C06" in want

    def walk(g, owner, chain):
        chain = [g] + chain
        for name, b in g.graph.items():
            if c04:
                if name != b.name:
                    out.append(("C04", "key-name-mismatch", name, b.name))
                if name in seen:
                    out.append(("C04", "duplicate-name", name, ""))
                seen[name] = True
                # 3: every target / back edge resolves here or in an enclosing graph
                for t in b._jump_targets:
                    if not _resolves(t, chain):
                        out.append(("C04", "unresolvable-target", name, t))
                for t in b.backedges:
                    if not _resolves(t, chain):
                        out.append(("C04", "unresolvable-backedge", name, t))
                    if t not in b._jump_targets:
                        out.append(("C04", "backedge-not-a-target", name, t))
                # 4: a direct child of R with a target outside R's graph is R.exiting
                if owner is not None:
                    leaves = [t for t in b._jump_targets if t not in g.graph]
                    if leaves and name != owner.exiting:
                        out.append(("C04", "non-exiting-child-leaves-region",
                                    name, "%s leaves %s to %s" % (name, owner.name, leaves)))
            if c06 and isinstance(b, SyntheticBranch):
                tv = list(b.branch_value_table.values())
                if set(tv) != set(b._jump_targets):
                    out.append(("C06", "table-successor-mismatch", name,
                                "table=%s targets=%s" % (sorted(set(tv)), sorted(set(b._jump_targets)))))
            if is_region(b):
                sub = b.subregion
                if sub is None:
                    if c04:
                        out.append(("C04", "region-without-subgraph", name, ""))
                    continue
                if c04:
                    # 2
                    if b.header not in sub.graph:
                        out.append(("C04", "header-not-inside", name, str(b.header)))
                    if b.exiting not in sub.graph:
                        out.append(("C04", "exiting-not-inside", name, str(b.exiting)))
                    else:
                        x = sub.graph[b.exiting]
                        # "outgoing targets" in the library's own vocabulary: the
                        # jump_targets property = successors that are not declared back
                        # edges.  (Until seeded change C04-10 targets inside the region's
                        # own graph were excluded as well, which let an exiting block
                        # that had lost its back-edge declaration pass.)
                        expect = tuple(t for t in x._jump_targets if t not in x.backedges)
                        if tuple(b._jump_targets) != expect:
                            out.append(("C04", "region-targets-differ-from-exiting", name,
                                        "region=%s exiting(%s)=%s" % (list(b._jump_targets), b.exiting, list(expect))))
                    # control enters only at the header: outside blocks of the
                    # containing graph name the region, never an inner block --
                    # covered by 3 (inner names do not resolve from outside).
                    # 6
                    pr = b.parent_region
                    expect_name = owner.name if owner is not None else g.region.name
                    if not is_region(pr):
                        out.append(("C04", "parent-not-a-region", name, type(pr).__name__))
                    elif pr.name != expect_name or pr.subregion is not g:
                        out.append(("C04", "parent-wrong", name,
                                    "recorded=%s containing=%s" % (pr.name, expect_name)))
                walk(sub, b, chain)

    walk(scfg, None, [])
    return out
