"""The three machines of COSIM (DESIGN 4.3).

W0  walks the genesis description (reference model).
W1  walks the hierarchy by name (every block's own jump targets, resolved in
    the block's own graph, then outwards).
W2  walks region by region using only what each region declares (header,
    exiting, own outgoing targets).

All three are driven by one decision sequence.  A violation is raised as Viol.
"""
from numba_scfg.core.datastructures.basic_block import (
    SyntheticBlock, SyntheticAssignment, SyntheticBranch,
    SyntheticExitingLatch, RegionBlock)


class Viol(Exception):
    def __init__(self, prop, cls, where, detail=""):
        Exception.__init__(self, "%s:%s@%s %s" % (prop, cls, where, detail))
        self.prop = prop
        self.cls = cls
        self.where = where
        self.detail = detail


class NeedDecision(Exception):
    pass


def is_region(b):
    return isinstance(b, RegionBlock)


# ---------------------------------------------------------------- W0

class W0:
    def __init__(self, genesis):
        """genesis: list of [name, kind, targets]; first = entry."""
        self.succ = {d[0]: list(d[2]) for d in genesis}
        self.cur = genesis[0][0]
        self.done = False

    def arity(self):
        return len(self.succ[self.cur])

    def take(self, i):
        self.cur = self.succ[self.cur][i]


# ---------------------------------------------------------------- shared leaf semantics

class Machine:
    """Control-variable store and the semantics of a leaf block, shared by W1
    and W2.  C06's dynamic invariants are checked here."""

    def __init__(self, originals):
        self.originals = originals  # name -> arity in genesis
        self.val = {}
        self.assigned_at = {}
        self.latch_ran = {}
        self.clock = 0
        self.synth_run = 0
        self.synth_budget = 1000
        self.c06_events = 0

    def is_original(self, b):
        return (b.name in self.originals) and not isinstance(b, SyntheticBlock) \
            and not is_region(b)

    def leaf_choice(self, b, decide):
        """Return the chosen target name of leaf b or None for END.
        decide(k) supplies the decision at an original block with k successors."""
        self.clock += 1
        if self.is_original(b):
            self.synth_run = 0
            k = self.originals[b.name]
            tg = b._jump_targets
            if k == 0:
                if len(tg) == 0:
                    return None
                if len(tg) == 1:
                    return tg[0]
                raise Viol("C01", "arity-changed", b.name,
                           "original exit block now has %d successors" % len(tg))
            if len(tg) != k:
                raise Viol("C01", "arity-changed", b.name,
                           "original had %d successors, now %d" % (k, len(tg)))
            i = decide(k)
            return tg[i]
        self.synth_run += 1
        if self.synth_run > self.synth_budget:
            raise Viol("C01", "synthetic-livelock", b.name,
                       "more than %d consecutive synthetic steps" % self.synth_budget)
        if isinstance(b, SyntheticAssignment):
            for var, v in b.variable_assignment.items():
                self.val[var] = v
                self.assigned_at[var] = self.clock
        if isinstance(b, SyntheticBranch):
            self.c06_events += 1
            var = b.variable
            if var not in self.val:
                raise Viol("C06", "unset-control-variable", b.name,
                           "variable %s read before any assignment on this path" % var)
            if isinstance(b, SyntheticExitingLatch):
                last = self.latch_ran.get(b.name)
                if last is not None and self.assigned_at[var] <= last:
                    raise Viol("C06", "stale-control-variable-at-latch", b.name,
                               "variable %s not assigned since the latch last ran" % var)
                self.latch_ran[b.name] = self.clock
            v = self.val[var]
            if v not in b.branch_value_table:
                raise Viol("C06", "value-not-in-table", b.name,
                           "%s=%r table=%r" % (var, v, sorted(b.branch_value_table.items(), key=repr)))
            t = b.branch_value_table[v]
            if t not in b._jump_targets:
                raise Viol("C06", "table-target-not-a-successor", b.name,
                           "table[%r]=%s targets=%s" % (v, t, list(b._jump_targets)))
            return t
        tg = b._jump_targets
        if len(tg) == 0:
            return None
        if len(tg) == 1:
            return tg[0]
        raise Viol("C01", "undetermined-synthetic-successor", b.name,
                   "%s has %d successors and no control variable" % (type(b).__name__, len(tg)))


def find_top_head(scfg):
    names = list(scfg.graph.keys())
    haspred = set()
    for n in names:
        b = scfg.graph[n]
        for t in b._jump_targets:
            if t not in b.backedges:
                haspred.add(t)
    heads = [n for n in names if n not in haspred]
    if len(heads) != 1:
        raise Viol("C04", "no-unique-head", "<top>", "heads=%s" % heads)
    return heads[0]


# ---------------------------------------------------------------- W1

class W1:
    def __init__(self, scfg, originals, flat=False):
        """flat=True: a target that names nothing in its own or an enclosing
        region is looked up in the whole hierarchy (the walk over the flattened
        result that C06's quantifier speaks of).  Only used to follow up on a
        walk that the scoped lookup had to abandon (a C04 violation)."""
        self.top = scfg
        self.flat = flat
        self.index = None
        self.m = Machine(originals)
        self.stack = []  # enclosing regions, outermost first
        self.trace = []  # leaf names visited, in order
        self.cur = None
        self.ended = False

    def _graph_at(self, j):
        return self.top if j == 0 else self.stack[j - 1].subregion

    def _descend(self, b):
        while is_region(b):
            sub = b.subregion
            if sub is None or b.header not in sub.graph:
                raise Viol("C04", "header-not-inside", b.name, str(b.header))
            self.stack.append(b)
            b = sub.graph[b.header]
        return b

    def start(self):
        h = find_top_head(self.top)
        self.cur = self._descend(self.top.graph[h])
        self.trace.append(self.cur.name)

    def _resolve(self, t, frm):
        for j in range(len(self.stack), -1, -1):
            g = self._graph_at(j)
            if t in g.graph:
                del self.stack[j:]
                return self._descend(g.graph[t])
        if self.flat:
            if self.index is None:
                self.index = {}

                def scan(g, chain):
                    for name, b in g.graph.items():
                        self.index.setdefault(name, (g, chain))
                        if is_region(b) and b.subregion is not None and len(chain) < 200:
                            scan(b.subregion, chain + [b])
                scan(self.top, [])
            if t in self.index:
                g, chain = self.index[t]
                self.stack[:] = chain
                return self._descend(g.graph[t])
        raise Viol("C04", "unresolvable-target", frm,
                   "target %s of %s names nothing in its region or an enclosing one" % (t, frm))

    def run_to_original(self):
        """Advance over synthetic blocks until standing on an original block.
        Returns its name or None if END was reached."""
        while True:
            if self.ended:
                return None
            if self.m.is_original(self.cur):
                return self.cur.name
            t = self.m.leaf_choice(self.cur, None)
            if t is None:
                self.ended = True
                return None
            self.cur = self._resolve(t, self.cur.name)
            self.trace.append(self.cur.name)

    def take(self, i):
        """Standing on an original block: take decision i (ignored for exits)."""
        b = self.cur
        t = self.m.leaf_choice(b, lambda k: i)
        if t is None:
            self.ended = True
            return
        self.cur = self._resolve(t, b.name)
        self.trace.append(self.cur.name)


# ---------------------------------------------------------------- W2

class _Stop(Exception):
    pass


class W2:
    """Recursive region-wise interpreter.  run(decisions) executes until the
    decisions are exhausted at an original block, or END."""

    def __init__(self, scfg, originals):
        self.top = scfg
        self.m = Machine(originals)
        self.trace = []
        self.orig_trace = []
        self.ended = False
        self.decisions = []
        self.di = 0
        self.stop_after_last = False

    def _decide(self, k):
        if self.di >= len(self.decisions):
            raise _Stop()
        i = self.decisions[self.di]
        self.di += 1
        return i

    def run(self, decisions):
        self.decisions = list(decisions)
        try:
            h = find_top_head(self.top)
            res = self._exec_graph(self.top, h, None)
            if res[0] == "END":
                self.ended = True
            else:
                raise Viol("C04", "left-top-level", "<top>", repr(res))
        except _Stop:
            pass

    def _exec_leaf(self, b):
        self.trace.append(b.name)
        if self.m.is_original(b):
            self.orig_trace.append(b.name)
            if self.m.originals[b.name] > 0 and self.di >= len(self.decisions):
                raise _Stop()
        t = self.m.leaf_choice(b, self._decide)
        return t

    def _exec_graph(self, g, start, R):
        cur = start
        while True:
            if cur not in g.graph:
                raise Viol("C04", "unresolvable-target", R.name if R is not None else "<top>",
                           "%s is not in the graph of %s" % (cur, R.name if R is not None else "<top>"))
            child = g.graph[cur]
            if is_region(child):
                res = self._exec_region(child)
                if res[0] == "END":
                    t, back = None, False
                elif res[0] == "FWD":
                    pos = res[1]
                    if pos >= len(child._jump_targets):
                        raise Viol("C04", "region-targets-differ-from-exiting", child.name,
                                   "exit position %d but region declares %s" % (pos, list(child._jump_targets)))
                    t, back = child._jump_targets[pos], False
                else:
                    t, back = res[1], True
                outgoing = [x for x in child._jump_targets if x not in g.graph]
            else:
                t = self._exec_leaf(child)
                back = t is not None and t in child.backedges
                outgoing = [x for x in child._jump_targets
                            if x not in child.backedges and x not in g.graph]
            if t is None:
                if R is not None and child.name != R.exiting:
                    raise Viol("C04", "ended-inside-region-not-at-exiting", child.name,
                               "execution ends at %s inside %s whose exiting is %s" % (child.name, R.name, R.exiting))
                return ("END",)
            if t in g.graph:
                cur = t
                continue
            # control leaves this graph
            if R is None:
                raise Viol("C04", "unresolvable-target", child.name,
                           "target %s of %s names nothing at top level" % (t, child.name))
            if child.name != R.exiting:
                raise Viol("C04", "non-exiting-child-leaves-region", child.name,
                           "%s leaves %s to %s but exiting is %s" % (child.name, R.name, t, R.exiting))
            if back:
                return ("BACK", t)
            if t not in outgoing:
                raise Viol("C04", "region-targets-differ-from-exiting", child.name,
                           "%s not among outgoing %s" % (t, outgoing))
            return ("FWD", outgoing.index(t))

    def _exec_region(self, R):
        sub = R.subregion
        if sub is None or R.header not in sub.graph:
            raise Viol("C04", "header-not-inside", R.name, str(R.header))
        if R.exiting not in sub.graph:
            raise Viol("C04", "exiting-not-inside", R.name, str(R.exiting))
        return self._exec_graph(sub, R.header, R)
