"""ENVSIM engine (DESIGN 4.4): generated code against a simulated,
fault-injecting environment.  Decides C07 (T = regenerated function) and C08
(B = block-by-block interpreter of the CFG built from source); R = the original
function under CPython is the reference model."""
import ast
import sys

from sim import blockinterp, defectmodel, proggen
from sim.cosim import innermost_repo_frame
from sim.env import Env, SimBudget, N_MAX
from sim.log import EventLog, jdigest
from sim.rng import Rng

LINE_BUDGET_R = 40000


class LineBudget(Exception):
    pass


def run_traced(fn, args, budget):
    """Run fn(*args) counting line events of fn's own code only (bounded
    liveness guard).  Returns (outcome, lines)."""
    code = fn.__code__
    count = [0]

    def local(frame, event, arg):
        if event == "line":
            count[0] += 1
            if count[0] > budget:
                raise LineBudget()
        return local

    def tracer(frame, event, arg):
        if frame.f_code is code:
            return local
        return None

    sys.settrace(tracer)
    try:
        try:
            val = fn(*args)
            out = ("ret", val)
        except LineBudget:
            out = ("livelock", None)
        except SimBudget:
            out = ("exc", "SimBudget")
        except RecursionError:
            out = ("exc", "RecursionError")
        except Exception as e:
            out = ("exc", type(e).__name__)
    finally:
        sys.settrace(None)
    return out, count[0]


def _site(e):
    return "%s@%s" % (type(e).__name__, innermost_repo_frame(e))


# ---------------------------------------------------------------- pipeline (once per program)

def build_T(source):
    """Returns ("ok", fn, text) | ("refused", where) | ("error", step, site, msg)."""
    from numba_scfg.core.datastructures.ast_transforms import AST2SCFG, SCFG2AST
    step = "AST2SCFG"
    try:
        scfg = AST2SCFG(source)
        step = "restructure"
        scfg.restructure()
        step = "SCFG2AST"
        tree = SCFG2AST(source, scfg)
        step = "unparse"
        text = ast.unparse(tree)
    except NotImplementedError:
        return ("refused", step)
    except RecursionError:
        return ("error", step, "RecursionError@?", "")
    except Exception as e:
        return ("error", step, _site(e), str(e)[:200])
    try:
        ns = {}
        exec(compile(text, "<regenerated>", "exec"), ns)
        fn = ns["transformed_f"]
    except Exception as e:
        return ("error", "compile", type(e).__name__, str(e)[:200])
    return ("ok", fn, text)


def build_B(source, prune):
    from numba_scfg.core.datastructures.ast_transforms import AST2SCFGTransformer
    try:
        scfg = AST2SCFGTransformer(source, prune=prune).transform_to_SCFG()
    except NotImplementedError:
        return ("refused", "AST2SCFG")
    except RecursionError:
        return ("error", "AST2SCFG", "RecursionError@?", "")
    except Exception as e:
        return ("error", "AST2SCFG", _site(e), str(e)[:200])
    try:
        blocks = blockinterp.compile_graph(scfg)
    except blockinterp.InterpError as e:
        return ("uninterpretable", str(e))
    except Exception as e:
        return ("error", "compile-blocks", type(e).__name__, str(e)[:200])
    return ("ok", blocks)


def bind(params, env, a, b):
    """Argument tuple for a function with the given parameter names."""
    spare = [a, b, a + b, a - b, 1, 2]
    out = []
    for p in params:
        if p == "E":
            out.append(env.E)
        elif p == "I":
            out.append(env.I)
        elif p == "O":
            out.append(env.O)
        elif p == "a":
            out.append(a)
        elif p == "b":
            out.append(b)
        else:
            out.append(spare.pop(0) if spare else 0)
    return tuple(out)


def run_B(blocks, env, ns, budget):
    ns = dict(ns)
    try:
        # entry = the first block of the graph (block "0", or the lowest surviving
        # block when "0" was pruned as empty)
        val = blockinterp.run(blocks, next(iter(blocks)), ns, budget)
        return ("ret", val)
    except blockinterp.BlockBudget:
        return ("livelock", None)
    except blockinterp.InterpError as e:
        return ("interp-error", str(e))
    except SimBudget:
        return ("exc", "SimBudget")
    except RecursionError:
        return ("exc", "RecursionError")
    except Exception as e:
        return ("exc", type(e).__name__)


# ---------------------------------------------------------------- case generation

def gen_case(rng, tier, params=None):
    params = params or {}
    quick = tier == "quick"
    cfg = rng.fork("cfg")
    size = cfg.randint(2, 14) if cfg.chance(0.75) else cfg.randint(10, 25)
    if cfg.chance(0.04):
        from sim import corpus
        src = cfg.choice(corpus.SOURCES)
    else:
        src = proggen.gen_program(rng.fork("prog"), size=size)
    nsched = 40 if quick else 400
    if params.get("nsched"):
        nsched = params["nsched"]
    return {"engine": "envsim", "source": src, "env_seed": rng.fork("env").randrange(2 ** 40),
            "nsched": nsched, "focus": params.get("focus", "C07")}


def gen_schedule(rng, hist_len):
    """One environment schedule: seed, arguments, fault plan.  About one third
    fault-free; fault positions land inside the interactions R performs."""
    sched = {"seed": rng.randrange(2 ** 32), "a": rng.randint(-1, 3), "b": rng.randint(0, 3), "faults": {}}
    if rng.chance(0.35) or hist_len == 0:
        return sched
    nf = rng.weighted([(1, 6), (2, 3), (3, 1)])
    for _ in range(nf):
        at = rng.randrange(hist_len + 1)
        kind = rng.weighted([("raise0", 3), ("raise1", 1), ("raise2", 1), ("stop", 4)])
        sched["faults"][str(at)] = kind
    return sched


# ---------------------------------------------------------------- comparison

def _outcome_eq(x, y):
    if x[0] != y[0]:
        return False
    if x[0] == "ret":
        try:
            return bool(x[1] == y[1])
        except Exception:
            return False
    return x[1] == y[1]


def _outcome_tag(o):
    if o[0] == "ret":
        return "ret"
    if o[0] == "exc":
        return "exc(%s)" % o[1]
    return o[0]


def _hist_diff(hr, ht):
    """Classify the first difference between two interaction histories."""
    i = 0
    while i < min(len(hr), len(ht)) and hr[i] == ht[i]:
        i += 1
    if i == len(hr) and i == len(ht):
        return None
    if i == len(hr):
        return i, "extra-interaction", "reference stops after %d interactions, other continues with %s" % (i, ht[i][1:])
    if i == len(ht):
        return i, "missing-interaction", "reference continues with %s, other stops after %d" % (hr[i][1:], i)
    sr = sorted(repr(x[1:]) for x in hr)
    st = sorted(repr(x[1:]) for x in ht)
    cls = "order" if sr == st else "different-interaction"
    return i, cls, "interaction %d: reference %s, other %s" % (i, hr[i][1:], ht[i][1:])


def _name_norm(o):
    """For B only: the interpreter runs statements in a dict namespace, where an
    unbound local raises NameError instead of UnboundLocalError; identified."""
    if o[0] == "exc" and o[1] in ("NameError", "UnboundLocalError"):
        return ("exc", "NameError")
    return o


def compare(ref, other, label):
    """ref/other = (history, outcome).  Returns None or (class, step, detail)."""
    (hr, orr), (ht, ot) = ref, other
    d = _hist_diff(hr, ht)
    if d is not None:
        i, cls, det = d
        return ("history-mismatch:%s" % cls, i, det)
    if not _outcome_eq(orr, ot):
        return ("outcome-mismatch:R=%s:%s=%s" % (_outcome_tag(orr), label, _outcome_tag(ot)), len(hr),
                "reference %r, %s %r" % (orr, label, ot))
    return None


# ---------------------------------------------------------------- one run

def _empty_arm(stmts):
    """Where an arm that does nothing leads: "fall", "break" or "continue";
    None if the arm does something (has any real statement)."""
    for st in stmts:
        if isinstance(st, ast.Pass):
            continue
        if isinstance(st, ast.Break):
            return "break"
        if isinstance(st, ast.Continue):
            return "continue"
        if isinstance(st, ast.If):
            x, y = _empty_arm(st.body), _empty_arm(st.orelse)
            if x is None or y is None or x != y:
                return None
            if x == "fall":
                continue
            return x
        return None
    return "fall"


def _dest(stmts, cont, loop):
    """Where control goes when it enters this statement list and nothing real
    happens: the first real statement reached (by identity), or a jump marker.
    cont = destination after the list; loop = (break_dest, continue_dest)."""
    for i, st in enumerate(stmts):
        if isinstance(st, ast.Pass):
            continue
        if isinstance(st, ast.Break):
            return loop[0] if loop else ("stmt", id(st))
        if isinstance(st, ast.Continue):
            return loop[1] if loop else ("stmt", id(st))
        if isinstance(st, ast.If) and isinstance(st.test, ast.Constant) and False:
            continue
        return ("stmt", id(st))
    return cont


def _has_degenerate_if(fn):
    found = []

    def scan(stmts, cont, loop):
        for i, st in enumerate(stmts):
            after = _dest(stmts[i + 1:], cont, loop)
            if isinstance(st, ast.If):
                x = _dest(st.body, after, loop)
                y = _dest(st.orelse, after, loop)
                if x == y:
                    found.append(st)
                scan(st.body, after, loop)
                scan(st.orelse, after, loop)
            elif isinstance(st, (ast.While, ast.For)):
                head = ("head", id(st))
                # leaving normally runs the else clause, then what follows
                after_else = _dest(st.orelse, after, loop)
                scan(st.body, head, (after, head))
                scan(st.orelse, after, loop)
                if isinstance(st, ast.While):
                    # the test block branches to the body and to the else clause
                    if _dest(st.body, head, (after, head)) == after_else:
                        found.append(st)
    scan(fn.body, ("end",), None)
    return bool(found)


def _effectively_empty(stmts):
    return _empty_arm(stmts) is not None


def _degenerate_if(node):
    """Both arms do nothing and lead to the same place: after pruning the test
    block has two identical successors."""
    x, y = _empty_arm(node.body), _empty_arm(node.orelse)
    return x is not None and x == y


def program_features(source):
    """Static facts about a program that known-finding entries may constrain."""
    feats = {"for": False, "while": False, "if": False, "boolop": False, "loop_else": False,
             "boolop_nontoplevel": False, "for_target_escapes": False, "degenerate_empty": False,
             "for_tuple_target": False}
    try:
        tree = ast.parse(source)
    except SyntaxError:
        return feats
    parent = {}
    for node in ast.walk(tree):
        for ch in ast.iter_child_nodes(node):
            parent[ch] = node
    for node in ast.walk(tree):
        if isinstance(node, ast.For):
            feats["for"] = True
            if not isinstance(node.target, ast.Name):
                feats["for_tuple_target"] = True
            if node.orelse:
                feats["loop_else"] = True
            if _effectively_empty(node.body) and False:
                feats["degenerate_empty"] = True
        elif isinstance(node, ast.While):
            feats["while"] = True
            if node.orelse:
                feats["loop_else"] = True
            pass
        elif isinstance(node, ast.If):
            feats["if"] = True
            pass
        elif isinstance(node, ast.BoolOp):
            feats["boolop"] = True
            p = parent.get(node)
            top = False
            if isinstance(p, (ast.Assign, ast.Return, ast.Expr)) and p.value is node:
                top = True
            if isinstance(p, (ast.If, ast.While)) and p.test is node:
                top = True
            if isinstance(p, ast.For) and p.iter is node:
                top = True  # becomes the only argument of iter(): nothing is evaluated before it
            if not top:
                feats["boolop_nontoplevel"] = True
    # an if whose two arms do nothing and lead to the same place
    fn = tree.body[0]
    if _has_degenerate_if(fn):
        feats["degenerate_empty"] = True
    # a while loop as the very first thing: the empty entry block is pruned and
    # the loop head (which has a predecessor) becomes the entry
    first = [st for st in fn.body if not isinstance(st, ast.Pass)][:1]
    if first and isinstance(first[0], ast.While):
        feats["degenerate_empty"] = True
    # a for-loop target that is read anywhere outside the bodies of the loops
    # that bind it
    bodies = {}
    for node in ast.walk(tree):
        if isinstance(node, ast.For) and isinstance(node.target, ast.Name):
            inside = bodies.setdefault(node.target.id, set())
            for st in node.body:
                for sub in ast.walk(st):
                    inside.add(sub)
    for node in ast.walk(tree):
        # the same target bound again by a loop nested in the first one: treated
        # as escaping (the inner loop clobbers what the outer body then reads)
        if isinstance(node, ast.For) and isinstance(node.target, ast.Name):
            for sub in ast.walk(node):
                if sub is not node and isinstance(sub, ast.For) and isinstance(sub.target, ast.Name) \
                        and sub.target.id == node.target.id:
                    feats["for_target_escapes"] = True
    for t, inside in bodies.items():
        for sub in ast.walk(tree):
            if isinstance(sub, ast.Name) and sub.id == t and isinstance(sub.ctx, ast.Load) \
                    and sub not in inside:
                feats["for_target_escapes"] = True
            if isinstance(sub, ast.AugAssign) and isinstance(sub.target, ast.Name) \
                    and sub.target.id == t and sub not in inside:
                feats["for_target_escapes"] = True
    return feats


def run_case(case, keep_log=False):
    log = EventLog(keep=keep_log)
    src = case["source"]
    stats = {"schedules": 0, "interactions": 0, "r_lines": 0, "t_runs": 0, "b_runs": 0,
             "divergent": 0, "faults_configured": 0}
    fired = {}
    res = {"violations": [], "inconclusive": None, "nontrivial": False, "stats": stats,
           "states": [], "reach": {}}
    log.add("program", jdigest(src))
    res["case_digest"] = jdigest([src, case.get("env_seed"), case.get("schedules")])
    seen = set()

    def viol(prop, cls, shape, step, detail, sched=None):
        sig = "%s:%s" % (prop, cls) + (":" + shape if shape else "")
        if sig in seen:
            return
        seen.add(sig)
        res["violations"].append({"property": prop, "signature": sig, "class": cls, "shape": shape,
                                  "step": step, "where": shape or "-", "detail": detail[:400],
                                  "schedule": sched})
        log.add("violation", [sig, step])

    try:
        ns = {}
        exec(compile(src, "<original>", "exec"), ns)
        R = ns["f"] if "f" in ns else [v for k, v in ns.items() if callable(v) and k != "__builtins__"][0]
    except Exception as e:
        res["inconclusive"] = "WORKLOAD-NOT-COMPILABLE:%s" % type(e).__name__
        res["log_digest"] = log.digest()
        return res
    params = list(R.__code__.co_varnames[: R.__code__.co_argcount])
    # In half of the runs the regenerated function is built after the two graphs,
    # i.e. from the third conversion of the same text in this process: a result that
    # depends on what the process converted before (caches, trees rewritten in
    # place: seeded changes C07-4, C07-16, C08-11) then shows in T as well as in B.
    t_last = bool(case.get("env_seed", 0) % 2) and not case.get("t_first")
    T = None
    if not t_last:
        T = build_T(src)
    Bs = {}
    for prune in (True, False):
        Bv = build_B(src, prune)
        Bs[prune] = Bv
        if Bv[0] == "uninterpretable":
            viol("C08", "graph-not-interpretable", "prune=%s" % prune, 0, Bv[1])
        log.add("graph", [prune, Bv[0]])
    if t_last:
        T = build_T(src)
    log.add("pipeline", [T[0]] + [str(x) for x in T[2:3]] if T[0] != "ok" else ["ok", jdigest(T[2])])
    if T[0] == "error":
        viol("C07", "internal-error", "%s:step=%s" % (T[2], T[1]), 0, T[3])
    res["reach"]["pipeline"] = T[0] if T[0] != "error" else "error:" + T[1]
    explicit = case.get("schedules")
    rng = Rng(case.get("env_seed", 0), "schedules")
    model = {}

    def explained(sched, other, norm, budget=LINE_BUDGET_R):
        """Does the defect model of the known desugaring defects (sim/defectmodel.py)
        behave exactly like `other` = (history, outcome) on this schedule?  Only
        consulted after a mismatch with the reference R."""
        if "fn" not in model:
            model["fn"] = defectmodel.build(src)
        if model["fn"] is None:
            return False
        envD = Env(sched["seed"], sched["faults"])
        outD, _n = run_traced(model["fn"], bind(params, envD, sched["a"], sched["b"]), budget)
        stats["model_runs"] = stats.get("model_runs", 0) + 1
        # NameError and UnboundLocalError are identified here for T as well: a mismatch
        # that is the model's behaviour except that a name whose only store was pruned
        # as unreachable raises NameError is two known findings at once (desugaring +
        # dead-store-pruned; met by the thorough run of seed 20260924)
        outD, other = _name_norm(outD), (other[0], _name_norm(other[1]))
        ok = compare((envD.history, outD), other, "X") is None
        if ok:
            stats["model_explains"] = stats.get("model_explains", 0) + 1
        return ok

    nsched = len(explicit) if explicit is not None else case.get("nsched", 40)
    histories = set()
    feats = program_features(src)
    for si in range(nsched):
        if explicit is not None:
            sched = explicit[si]
        else:
            srng = rng.fork(si)
            # fault-free probe of R to learn how many interactions it performs
            sched = gen_schedule(srng, 0)
            env0 = Env(sched["seed"])
            run_traced(R, bind(params, env0, sched["a"], sched["b"]), LINE_BUDGET_R)
            sched2 = gen_schedule(srng.fork("f"), min(len(env0.history), N_MAX))
            sched["faults"] = sched2["faults"]
        stats["schedules"] += 1
        stats["faults_configured"] += len(sched["faults"])
        a, b = sched["a"], sched["b"]
        envR = Env(sched["seed"], sched["faults"])
        outR, nlines = run_traced(R, bind(params, envR, a, b), LINE_BUDGET_R)
        if outR[0] == "livelock":
            stats["divergent"] += 1
            log.add("schedule", [si, "divergent-workload"])
            continue
        stats["interactions"] += len(envR.history)
        stats["r_lines"] += nlines
        for k, v in envR.fired.items():
            fired[k] = fired.get(k, 0) + v
        histories.add(jdigest(envR.history))
        ref = (envR.history, outR)
        budget = 50 * nlines + 2000
        verdicts = []
        if T[0] == "ok":
            envT = Env(sched["seed"], sched["faults"])
            outT, _n = run_traced(T[1], bind(params, envT, a, b), budget)
            stats["t_runs"] += 1
            d = compare(ref, (envT.history, outT), "T")
            if d is not None:
                if d[0] != "outcome-mismatch:R=exc(UnboundLocalError):T=exc(NameError)" \
                        and explained(sched, (envT.history, outT), False, budget):
                    d = ("known-desugaring:" + d[0],) + d[1:]
                viol("C07", d[0], "", d[1], d[2], sched)
            verdicts.append(["T", d[0] if d else "ok"])
        for prune in (True, False):
            Bv = Bs[prune]
            if Bv[0] != "ok":
                continue
            envB = Env(sched["seed"], sched["faults"])
            outB = run_B(Bv[1], envB, dict(zip(params, bind(params, envB, a, b))), budget)
            stats["b_runs"] += 1
            if outB[0] == "interp-error":
                viol("C08", "graph-not-interpretable", "prune=%s" % prune, len(envB.history), outB[1], sched)
                continue
            d = compare((ref[0], _name_norm(ref[1])), (envB.history, _name_norm(outB)), "B")
            if d is not None:
                if explained(sched, (envB.history, outB), True, budget):
                    d = ("known-desugaring:" + d[0],) + d[1:]
                viol("C08", d[0], "prune=%s" % prune, d[1], d[2], sched)
            verdicts.append(["B%d" % prune, d[0] if d else "ok"])
        log.add("schedule", [si, jdigest(envR.history), _outcome_tag(outR), verdicts])
    res["states"] = sorted(histories)[:50]
    res["reach"].update({"fired": fired, "feat_for": feats["for"],
                         "feat_boolop_nontoplevel": feats["boolop_nontoplevel"],
                         "feat_for_target_escapes": feats["for_target_escapes"],
                         "feat_degenerate_empty": feats["degenerate_empty"]})
    stats.update({"fault_" + k: v for k, v in fired.items()})
    res["nontrivial"] = bool((feats["for"] or feats["while"] or feats["if"] or feats["boolop"]) and len(histories) >= 2)
    res["log_digest"] = log.digest()
    if keep_log:
        res["log"] = log.events
    return res


# ---------------------------------------------------------------- replay / shrink / facts

def case_for_violation(case, viol):
    c = dict(case)
    if viol.get("schedule") is not None:
        c["schedules"] = [viol["schedule"]]
    else:
        c["schedules"] = []
    return c


def shrink_candidates(case, viol):
    from sim import reducers
    scheds = case.get("schedules") or []
    if scheds:
        s = scheds[0]
        # drop faults, lower fault positions
        fl = sorted(s["faults"].items(), key=lambda kv: int(kv[0]))
        for i in range(len(fl)):
            nf = dict(fl[:i] + fl[i + 1:])
            yield dict(case, schedules=[dict(s, faults=nf)])
        for i, (at, kind) in enumerate(fl):
            if int(at) > 0:
                for nat in (0, int(at) // 2, int(at) - 1):
                    if str(nat) not in s["faults"]:
                        nf = dict(fl)
                        del nf[at]
                        nf[str(nat)] = kind
                        yield dict(case, schedules=[dict(s, faults=nf)])
        for key in ("a", "b"):
            if s[key] != 0:
                yield dict(case, schedules=[dict(s, **{key: 0})])
    for ns in reducers.shrink_source(case["source"]):
        yield dict(case, source=ns)
    if scheds:
        s = scheds[0]
        for seed in range(0, 12):
            if s["seed"] != seed and s["seed"] > 12:
                yield dict(case, schedules=[dict(s, seed=seed)])


def where_facts(case, viol):
    facts = {"class": viol.get("class"), "shape": viol.get("shape")}
    if case is not None:
        facts.update(program_features(case["source"]))
    return facts
