"""P-gen (DESIGN 3.2): random functions `def f(E, I, O, a, b)` over the
supported statement subset.  Every interaction with the outside carries a site
id.  Names beginning `__scfg` are never produced."""

LOCALS = ["x", "y", "z"]
LOOPVARS = ["i", "j", "k"]


class _Gen:
    def __init__(self, rng, size, opts):
        self.rng = rng
        self.budget = size
        self.site = 0
        self.opts = opts
        self.lines = []
        self.loopdepth = 0
        self.forvars = []
        self.in_boolop = 0
        self.in_aug = 0

    def sid(self):
        self.site += 1
        return self.site

    # ---------------------------------------------------------- expressions
    def atom(self):
        r = self.rng
        names = LOCALS + ["a", "b"] + self.forvars
        return r.weighted([
            (r.choice(names), 5),
            (str(r.randint(0, 3)), 3),
            (r.choice(["True", "False"]), 0.5),
            ("None", 0.2),
        ])

    def ext(self, depth):
        r = self.rng
        kind = r.weighted([("call", 6), ("attr", 1.5), ("sub", 1.5)])
        if kind == "call":
            nargs = r.weighted([(0, 5), (1, 3), (2, 1)])
            args = [self.expr(depth + 1) for _ in range(nargs)] if depth < 3 else []
            return "E(%s)" % ", ".join([str(self.sid())] + args)
        if kind == "attr":
            return "O.a%d" % self.sid()
        return "O[%d]" % self.sid()

    def expr(self, depth=0, boolish=False):
        r = self.rng
        o = self.opts
        if depth >= 3:
            return self.atom() if r.chance(0.6) else self.ext(depth)
        bw = (3 if boolish else 1.5) * o["boolop"]
        if o["boolop_mode"] == "toplevel" and (depth > 0 or self.in_boolop or self.in_aug):
            bw = 0
        kind = r.weighted([
            ("atom", 4), ("ext", 5),
            ("bin", 2), ("cmp", 2 + (2 if boolish else 0)),
            ("boolop", bw),
            ("not", 0.7 * o["unary"]),
            ("neg", 0.3 * o["unary"]), ("member", 0.4 * o["extras"]), ("isnone", 0.3 * o["extras"]),
            ("ifexp", 0.4 * o["extras"]), ("kwcall", 0.4 * o["extras"]),
            # second session: expression forms the front end leaves to Python
            ("listidx", 0.25 * o["extras"]), ("walrus", 0.2 * o["extras"]), ("fstr", 0.15 * o["extras"]),
            ("lambda", 0.15 * o["extras"]), ("listcomp", 0.15 * o["extras"]),
        ])
        if kind == "listidx":
            return "[%s, %s][%d]" % (self.expr(depth + 1), self.expr(depth + 1), r.randint(0, 1))
        if kind == "walrus":
            return "(%s := %s)" % (r.choice(LOCALS), self.expr(depth + 1))
        if kind == "fstr":
            return "len(f'{%s}')" % self.ext(3)
        if kind == "lambda":
            return "(lambda v: (v + %s))(%s)" % (self.ext(3), self.atom())
        if kind == "listcomp":
            return "sum([(v + %s) for v in (1, 2)])" % self.ext(3)
        if kind == "neg":
            return "(-%s)" % self.atom()
        if kind == "member":
            return "(%s %s (%d, %d))" % (self.expr(depth + 1), r.choice(["in", "not in"]), r.randint(0, 1), r.randint(2, 3))
        if kind == "isnone":
            return "(%s %s None)" % (self.ext(3), r.choice(["is", "is not"]))
        if kind == "ifexp":
            return "(%s if %s else %s)" % (self.expr(depth + 1), self.ext(3), self.expr(depth + 1))
        if kind == "kwcall":
            return "E(%d, k=%s)" % (self.sid(), self.expr(depth + 1))
        if kind == "atom":
            return self.atom()
        if kind == "ext":
            return self.ext(depth)
        if kind == "bin":
            op = r.choice(["+", "-", "*"])
            if op == "*":
                # never multiply two growing locals (x = x * x in a loop squares the
                # number of digits per iteration and stalls inside CPython's bignum code)
                right = r.choice([str(r.randint(0, 3)), "True"]) if r.chance(0.5) else self.ext(3)
                return "(%s * %s)" % (self.expr(depth + 1), right)
            return "(%s %s %s)" % (self.expr(depth + 1), op, self.expr(depth + 1))
        if kind == "cmp":
            n = 2 if r.chance(0.8) else 3
            parts = [self.expr(depth + 1)]
            for _ in range(n - 1):
                parts.append(r.choice(["<", "<=", "==", "!=", ">"]))
                parts.append(self.expr(depth + 1))
            return "(%s)" % " ".join(parts)
        if kind == "boolop":
            n = r.weighted([(2, 6), (3, 3), (4, 1)])
            op = r.choice([" and ", " or "])
            self.in_boolop += 1
            parts = [self.expr(depth + 1, True) for _ in range(n)]
            self.in_boolop -= 1
            return "(%s)" % op.join(parts)
        return "(not %s)" % self.expr(depth + 1, True)

    def test(self):
        """A condition; in 'plain_tests' mode restricted to names and comparisons."""
        r = self.rng
        if self.opts["plain_tests"]:
            if r.chance(0.5):
                return "%s %s %s" % (self.atom(), r.choice(["<", "==", "!=", ">"]), self.ext(3))
            return r.choice(LOCALS + ["a", "b"])
        return self.expr(0, True)

    def loop_test(self):
        """while tests are fed by the environment so that loops end (the
        environment budget bounds them)."""
        r = self.rng
        e = "E(%d)" % self.sid()
        form = r.weighted([("ext", 5), ("and", 2), ("cmp", 2), ("or", 0.6)])
        if self.opts["plain_tests"]:
            form = "cmp"
        if form == "ext":
            return e
        if form == "and":
            self.in_boolop += 1
            other = self.expr(1, True)
            self.in_boolop -= 1
            return "%s and %s" % (e, other) if r.chance(0.5) else "%s and %s" % (other, e)
        if form == "cmp":
            return "%s %s %d" % (e, r.choice(["<", "!=", ">"]), r.randint(0, 2))
        return "%s or %s" % (e, self.atom())

    # ---------------------------------------------------------- statements
    def emit(self, ind, text):
        self.lines.append("    " * ind + text)

    def block(self, ind, depth, maxn=None):
        r = self.rng
        n = r.randint(1, maxn or 4)
        emitted = 0
        for _ in range(n):
            if self.budget <= 0 and emitted:
                break
            mark = len(self.lines)
            done = self.stmt(ind, depth)
            if self.opts["clean"] and not self.opts.get("empty_arms_ok") and emitted == 0:
                first = self.lines[mark].strip()
                if first in ("pass", "break", "continue"):
                    # keep the arm from being effectively empty
                    self.lines.insert(mark, "    " * ind + "E(%d)" % self.sid())
            emitted += 1
            if done:
                if self.opts.get("dead_code") and r.chance(0.4):
                    # a statement after break / continue / return in the same
                    # statement list: legal, never executed
                    self.stmt(ind, depth)
                break
        if not emitted:
            self.emit(ind, "E(%d)" % self.sid() if (self.opts["clean"] and not self.opts.get("empty_arms_ok")) else "pass")

    def stmt(self, ind, depth):
        """Emit one statement; return True if control cannot fall through."""
        r = self.rng
        o = self.opts
        self.budget -= 1
        inloop = self.loopdepth > 0
        deep = depth >= o["maxdepth"]
        kind = r.weighted([
            ("assign", 5), ("aug", 2), ("expr", 2), ("pass", 0 if (o["clean"] and not o.get("empty_arms_ok")) else 0.3),
            ("store", 1.2 * o["stores"]),
            ("if", 0 if deep else 4), ("while", 0 if deep else 2 * o["loops"]),
            ("for", 0 if deep else 2.5 * o["loops"]),
            ("break", 1.5 * o["jumpy"] if inloop else 0), ("continue", 1 * o["jumpy"] if inloop else 0),
            ("return", 0.8 * (o["jumpy"] if inloop else 1)),
            ("jumpchain", 0.35 * o["jumpy"] if (inloop and not deep and o.get("empty_arms_ok", True)) else 0),
        ])
        if kind == "jumpchain":
            # an if whose body ends in a nested bare `if c: break`, followed by a bare
            # jump: the empty end-if blocks and the jump arms compete for one successor
            # (seeded change C07-17)
            j1 = r.choice(["break", "continue"])
            j2 = r.choice(["break", "continue"])
            self.emit(ind, "if %s:" % self.test())
            self.emit(ind + 1, r.choice(["x += 1", "y = E(%d)" % self.sid(), "E(%d)" % self.sid()]))
            self.emit(ind + 1, "if %s:" % self.test())
            self.emit(ind + 2, j1)
            self.emit(ind, j2)
            return True
        if kind == "store":
            # assignment / augmented assignment to an attribute or item of the
            # simulated object: the store is an interaction, so the order of
            # value evaluation vs. target evaluation is observable
            form = r.weighted([("attr", 3), ("item", 3), ("item-expr", 1.5), ("aug-attr", 1), ("tuple", 1.5)])
            if form == "attr":
                self.emit(ind, "O.a%d = %s" % (self.sid(), self.expr(1)))
            elif form == "item":
                self.emit(ind, "O[%d] = %s" % (self.sid(), self.expr(1)))
            elif form == "item-expr":
                self.emit(ind, "O[%s] = %s" % (self.ext(2), self.expr(1)))
            elif form == "aug-attr":
                self.emit(ind, "O.a%d += %s" % (self.sid(), self.atom() if self.opts["boolop_mode"] == "toplevel" else self.expr(2)))
            else:
                a_, b_ = r.sample(LOCALS, 2)
                self.emit(ind, "%s, %s = %s, %s" % (a_, b_, self.expr(2), self.expr(2)))
        elif kind == "assign":
            if o["extras"] and r.chance(0.06):
                a_, b_ = r.sample(LOCALS, 2)
                self.emit(ind, "%s = %s = %s" % (a_, b_, self.expr()))          # chained assignment
            elif o["extras"] and r.chance(0.04):
                a_, b_ = r.sample(LOCALS, 2)
                self.emit(ind, "%s, *%s = (%s, %s, %s)" % (a_, b_, self.expr(2), self.atom(), self.atom()))
            else:
                self.emit(ind, "%s = %s" % (r.choice(LOCALS), self.expr()))
        elif kind == "aug":
            self.in_aug += 1
            op = r.choice(["+", "-", "*"])
            rhs = self.expr(1) if op != "*" else (str(r.randint(0, 3)) if r.chance(0.4) else self.ext(3))
            self.emit(ind, "%s %s= %s" % (r.choice(LOCALS), op, rhs))
            self.in_aug -= 1
        elif kind == "expr":
            self.emit(ind, self.ext(0) if r.chance(0.7) else self.expr())
        elif kind == "pass":
            self.emit(ind, "pass")
        elif kind == "if":
            self.emit(ind, "if %s:" % self.test())
            self.block(ind + 1, depth + 1)
            nel = r.weighted([(0, 3), (1, 4), (2, 1), (3, 0.4), (4, 0.3)])
            for e in range(nel):
                if e < nel - 1 or r.chance(0.3):
                    self.emit(ind, "elif %s:" % self.test())
                else:
                    self.emit(ind, "else:")
                self.block(ind + 1, depth + 1)
        elif kind == "while":
            self.emit(ind, "while %s:" % self.loop_test())
            self.loopdepth += 1
            self.block(ind + 1, depth + 1)
            self.loopdepth -= 1
            if r.chance(0.3):
                self.emit(ind, "else:")
                self.block(ind + 1, depth + 1, 2)
        elif kind == "for":
            avail = [v for v in LOOPVARS if v not in self.forvars]
            var = r.choice(avail) if avail and (r.chance(0.85) or not o["for_target_local"]) else r.choice(LOCALS)
            if var in LOCALS and not o["for_target_local"]:
                var = LOOPVARS[0]
            if o["for_tuple"] and r.chance(0.3):
                # structured targets (a known finding until repo commit 94af376, hence
                # formerly kept out of the clean runs)
                form = r.weighted([("pair", 6), ("attr", 1.5), ("item", 1.5), ("star", 1)])
                if form == "pair":
                    self.emit(ind, "for %s, %s in I(%d, 2):" % (var, r.choice(LOCALS), self.sid()))
                elif form == "star":
                    self.emit(ind, "for %s, *%s in I(%d, 2):" % (var, r.choice(LOCALS), self.sid()))
                else:
                    tgt = "O.a%d" % self.sid() if form == "attr" else "O[%d]" % self.sid()
                    self.emit(ind, "for %s in I(%d):" % (tgt, self.sid()))
                    var = None
            elif o["boolop"] and r.chance(0.08):
                # and/or as the whole iterable expression
                self.emit(ind, "for %s in I(%d) %s I(%d):" % (var, self.sid(), r.choice(["or", "and"]), self.sid()))
            else:
                self.emit(ind, "for %s in I(%d):" % (var, self.sid()))
            pushed = var in LOOPVARS
            if pushed:
                self.forvars.append(var)
            self.loopdepth += 1
            self.block(ind + 1, depth + 1)
            self.loopdepth -= 1
            # the loop variable stays visible after the loop (it escapes) -- unless
            # this run keeps for-targets local to their loop body
            keep = r.chance(o["keep_loopvar"])
            if pushed and not keep:
                self.forvars.remove(var)
            if r.chance(0.3):
                self.emit(ind, "else:")
                self.block(ind + 1, depth + 1, 2)
        elif kind == "break":
            self.emit(ind, "break")
            return True
        elif kind == "continue":
            self.emit(ind, "continue")
            return True
        elif kind == "return":
            self.emit(ind, "return %s" % self.expr() if r.chance(0.85) else "return")
            return True
        return False


def draw_opts(rng):
    o = _draw_opts(rng)
    # unreachable statements behind a jump (added in the second session, after a
    # sub-agent's fuzzer met them: the front end kept them in the block)
    o["dead_code"] = rng.fork("dead-code").chance(0.25)
    if rng.chance(0.6):
        # "clean" shape: none of the shapes the known findings are tied to
        # (nested and/or, escaping for-target, effectively empty arms), so that
        # a known finding can never mask a new defect in these runs
        o.update({"clean": True, "boolop_mode": "toplevel", "keep_loopvar": 0.0,
                  "for_target_local": False})
        # arms that do nothing (`if c: pass`, `while c: break`) were tied to a
        # known finding until it was repaired (3526765); half of the clean runs
        # now draw them freely, because that repair is new code to be exercised
        o["empty_arms_ok"] = rng.fork("empty-arms").chance(0.5)
    return o


def _draw_opts(rng):
    return {
        "boolop": rng.choice([0.0, 0.5, 1.0, 2.0]),
        "unary": rng.choice([0.0, 1.0]),
        "loops": rng.choice([0.0, 0.5, 1.0, 1.5]),
        "plain_tests": rng.chance(0.25),
        "maxdepth": rng.choice([1, 2, 3, 4, 5]),
        "init_locals": rng.chance(0.85),
        "keep_loopvar": rng.choice([0.0, 0.5, 1.0]),
        "final_tuple": rng.chance(0.6),
        "boolop_mode": rng.choice(["toplevel", "anywhere"]),
        "for_target_local": rng.chance(0.4),
        "clean": False,
        "jumpy": rng.choice([1, 1, 2.5, 4]),
        "stores": rng.choice([0, 1, 1, 2]),
        "extras": rng.choice([0, 0, 1, 2]),
        "for_tuple": rng.chance(0.3),
        "family": "multiexit" if rng.chance(0.15) else "general",
    }


def gen_multi_exit(rng, opts):
    """Family "loops with many ways out": a loop whose body is a sequence of
    guarded exits (break / continue / return, each optionally preceded by a
    statement) so that three and more exits re-join behind the loop."""
    g = _Gen(rng.fork("mx"), 6, opts)
    r = g.rng
    g.emit(0, "def f(E, I, O, a, b):")
    g.emit(1, "x = 0")
    g.emit(1, "y = 1")
    g.emit(1, "z = a")
    nloops = r.weighted([(1, 5), (2, 2)])
    for _l in range(nloops):
        ind = 1
        if r.chance(0.3):
            g.emit(1, "if %s:" % g.test())
            ind = 2
        if r.chance(0.7):
            g.emit(ind, "while E(%d):" % g.sid())
        else:
            g.emit(ind, "for i in I(%d):" % g.sid())
        g.loopdepth += 1
        g.emit(ind + 1, "x += 1")
        for _e in range(r.randint(2, 4)):
            g.emit(ind + 1, "if E(%d):" % g.sid())
            narm = r.weighted([(1, 5), (2, 3)])
            for arm in range(narm):
                if arm:
                    g.emit(ind + 1, "elif E(%d):" % g.sid())
                if r.chance(0.6):
                    g.emit(ind + 2, r.choice(["E(%d)" % g.sid(), "y += 1", "z = E(%d)" % g.sid()]))
                jump = r.weighted([("break", 4), ("continue", 2), ("return", 3), ("none", 2)])
                if jump == "return":
                    g.emit(ind + 2, "return (x, %s)" % r.choice(["y", "z", "100", "E(%d)" % g.sid()]))
                elif jump == "none":
                    g.emit(ind + 2, "y = %d" % r.randint(2, 9))
                else:
                    if g.lines[-1].strip().endswith(":") and not r.fork("bare%d" % len(g.lines)).chance(0.5):
                        g.emit(ind + 2, "E(%d)" % g.sid())
                    # (else: a bare `if c: break` -- an arm that does nothing but jump;
                    # legal since the pruning repair 3526765, and with a bare jump at the
                    # end of the body several empty blocks compete for the same successor:
                    # seeded change C07-17)
                    g.emit(ind + 2, jump)
            if r.chance(0.2):
                g.emit(ind + 1, "else:")
                g.emit(ind + 2, "z = E(%d)" % g.sid())
        tail = r.fork("tail%d" % len(g.lines)).weighted([("asis", 6), ("break", 2), ("continue", 1)])
        if tail != "asis":
            g.emit(ind + 1, tail)
        elif r.chance(0.4):
            g.emit(ind + 1, "return (x, y, %d)" % r.randint(100, 103))
        else:
            g.emit(ind + 1, "y += E(%d)" % g.sid())
        g.loopdepth -= 1
        if r.chance(0.25):
            g.emit(ind, "else:")
            g.emit(ind + 1, "z = E(%d)" % g.sid())
        if r.chance(0.5):
            g.emit(1, "y = E(%d)" % g.sid())
    g.emit(1, "return (x, y, z)")
    return "\n".join(g.lines) + "\n"


def gen_program(rng, size=10, opts=None):
    opts = opts or draw_opts(rng.fork("opts"))
    if opts.get("family") == "multiexit":
        return gen_multi_exit(rng, opts)
    g = _Gen(rng.fork("body"), size, opts)
    g.emit(0, "def f(E, I, O, a, b):")
    if opts["init_locals"]:
        g.emit(1, "x = 0")
        g.emit(1, "y = 1")
        g.emit(1, "z = a")
    else:
        g.emit(1, "x = 0")
    while g.budget > 0:
        if g.stmt(1, 0):
            break
    else:
        pass
    last = g.lines[-1].strip()
    if not (last.startswith("return") and g.lines[-1].startswith("    r")):
        if opts["final_tuple"]:
            vs = LOCALS if opts["init_locals"] else ["x"]
            vs = vs + [v for v in g.forvars]
            g.emit(1, "return (%s,)" % ", ".join(vs))
        elif g.rng.chance(0.5):
            g.emit(1, "return %s" % g.expr())
    return "\n".join(g.lines) + "\n"
