"""simkit: deterministic simulation with fault injection for numba-scfg (see /verif/DESIGN.md)."""
