"""Executable model of the *known* desugaring defects of the source front end
(DESIGN 8.6): a source-to-source transformation that does to a function what
AST2SCFGTransformer is known (and, for the for-loop, documented) to do wrongly:

* eager hoisting of and/or: `handle_expression` descends through BoolOp,
  Compare, BinOp and Call arguments only, and emits the desugaring of every
  and/or it meets *before* the statement it is part of -- so an and/or nested in
  a larger expression runs before earlier operands of that expression, and both
  operands of a two-operand and/or are searched for nested and/or before the
  test of the first operand is emitted (`y = 1 or (True and O[3])` reads O[3]);
* the for-loop desugaring of the `handle_for` docstring: `target = None` before
  the loop, the previous iteration's value restored on exhaustion (so the
  target is clobbered by an empty iterable).  Targets that are not a plain
  name were repaired (repo commit 94af376: they go through a temporary and are
  neither pre-assigned nor restored); the model follows the repaired code there.

The result R_def is an ordinary Python function.  ENVSIM consults it only after
a mismatch between the reference R and T/B: when T/B behaves exactly like R_def
on that schedule, the mismatch *is* the known defect (signature prefix
`known-desugaring`); when it behaves like neither, it is something else and no
known-finding entry can mask it.  The model never produces a verdict by itself.
"""
import ast

SENTINEL = "__scfg_sentinel__"


class _Model:
    def __init__(self):
        self.nb = 0
        self.nl = 0

    # ------------------------------------------------------------ expressions
    def hoist(self, node):
        """Mirror of AST2SCFGTransformer.handle_expression: returns
        (statements to run first, replacement expression)."""
        if node is None:
            return [], None
        if isinstance(node, ast.BoolOp):
            if len(node.values) > 2:
                tail = ast.BoolOp(node.op, node.values[1:])
                return self.bool_op(ast.BoolOp(node.op, [node.values[0], tail]))
            pre = []
            vals = []
            for v in node.values:
                p, e = self.hoist(v)
                pre += p
                vals.append(e)
            p, e = self.bool_op(ast.BoolOp(node.op, vals))
            return pre + p, e
        if isinstance(node, ast.Compare):
            pre, node.left = self.hoist(node.left)
            comps = []
            for c in node.comparators:
                p, e = self.hoist(c)
                pre += p
                comps.append(e)
            node.comparators = comps
            return pre, node
        if isinstance(node, ast.BinOp):
            p1, node.left = self.hoist(node.left)
            p2, node.right = self.hoist(node.right)
            return p1 + p2, node
        if isinstance(node, ast.Call):
            pre = []
            args = []
            for a in node.args:
                p, e = self.hoist(a)
                pre += p
                args.append(e)
            node.args = args
            return pre, node
        return [], node

    def bool_op(self, node):
        self.nb += 1
        t = "__dm_bool_%d__" % self.nb
        pl, left = self.hoist(node.values[0])
        stmts = pl + [ast.Assign([ast.Name(t, ast.Store())], left, lineno=0)]
        pr, right = self.hoist(node.values[1])
        branch = pr + [ast.Assign([ast.Name(t, ast.Store())], right, lineno=0)]
        if isinstance(node.op, ast.Or):
            test = ast.UnaryOp(ast.Not(), ast.Name(t, ast.Load()))
        else:
            test = ast.Name(t, ast.Load())
        stmts.append(ast.If(test, branch, []))
        return stmts, ast.Name(t, ast.Load())

    # ------------------------------------------------------------ statements
    def block(self, stmts):
        out = []
        for st in stmts:
            out += self.stmt(st)
        return out or [ast.Pass()]

    def stmt(self, st):
        if isinstance(st, (ast.Assign, ast.AugAssign, ast.Expr, ast.Return)):
            pre, st.value = self.hoist(st.value)
            return pre + [st]
        if isinstance(st, ast.If):
            pre, st.test = self.hoist(st.test)
            st.body = self.block(st.body)
            st.orelse = self.block(st.orelse) if st.orelse else []
            return pre + [st]
        if isinstance(st, ast.While):
            pre, test = self.hoist(st.test)
            body = self.block(st.body)
            orelse = self.block(st.orelse) if st.orelse else []
            if not pre:
                st.test, st.body, st.orelse = test, body, orelse
                return [st]
            # the hoisted statements belong to the loop header: they run again
            # before every test
            self.nl += 1
            flag = "__dm_else_%d__" % self.nl
            leave = ast.If(ast.UnaryOp(ast.Not(), test),
                           [ast.Assign([ast.Name(flag, ast.Store())], ast.Constant(True), lineno=0), ast.Break()], [])
            loop = ast.While(ast.Constant(True), pre + [leave] + body, [])
            out = [ast.Assign([ast.Name(flag, ast.Store())], ast.Constant(False), lineno=0), loop]
            if orelse:
                out.append(ast.If(ast.Name(flag, ast.Load()), orelse, []))
            return out
        if isinstance(st, ast.For):
            self.nl += 1
            k = self.nl
            it, last, flag = "__dm_iter_%d__" % k, "__dm_last_%d__" % k, "__dm_else_%d__" % k
            target = ast.unparse(st.target)
            simple = isinstance(st.target, ast.Name)
            # since fix "for-loops with structured targets": a target that is not a
            # plain name is neither pre-assigned nor restored; the item goes through a
            # temporary and is unpacked at the top of the body (correct semantics)
            nxt = target if simple else "__dm_next_%d__" % k
            pre_src = "%s = iter(%s)\n" % (it, ast.unparse(st.iter)) + ("%s = None\n" % target if simple else "")
            out = []
            for s in ast.parse(pre_src).body:
                out += self.stmt(s)
            head = ast.parse(("%s = %s\n" % (last, target) if simple else "") + "%s = next(%s, %r)\n" % (nxt, it, SENTINEL)).body
            leave = ast.parse("if not (%s != %r):\n    %s = True\n    break\n" % (nxt, SENTINEL, flag)).body
            body = ([] if simple else ast.parse("%s = %s\n" % (target, nxt)).body) + self.block(st.body)
            out.append(ast.Assign([ast.Name(flag, ast.Store())], ast.Constant(False), lineno=0))
            out.append(ast.While(ast.Constant(True), head + leave + body, []))
            restore = ast.parse("%s = %s\n" % (target, last)).body if simple else []
            orelse = self.block(st.orelse) if st.orelse else []
            if restore or orelse:
                out.append(ast.If(ast.Name(flag, ast.Load()), restore + orelse, []))
            return out
        return [st]


def eager_source(source):
    """Source of the defect model R_def of the function in `source`."""
    tree = ast.parse(source)
    fn = tree.body[0]
    m = _Model()
    fn.body = m.block(fn.body)
    ast.fix_missing_locations(tree)
    return ast.unparse(tree)


def build(source):
    """Returns the function object of R_def, or None if the model cannot be built."""
    try:
        text = eager_source(source)
        ns = {}
        exec(compile(text, "<defect-model>", "exec"), ns)
        fns = [v for k, v in ns.items() if callable(v) and k != "__builtins__"]
        return ns.get("f") or fns[0]
    except Exception:
        return None
