"""The fleet (DESIGN 2.2): plans batches and runs each in its own node."""
import json
import os
import subprocess
import sys
from concurrent.futures import ThreadPoolExecutor

from sim.rng import derive_int

VERIF_DIR = os.path.dirname(os.path.dirname(os.path.abspath(__file__)))
PY = "/venv/bin/python"


def repo_dir():
    return os.path.realpath(os.environ.get("VERIF_REPO", "/repo"))


def hash_seed_for(verif_seed, label, force_zero=False):
    if force_zero:
        return 0
    h = derive_int(verif_seed, "hashseed/%s" % label, 2 ** 32)
    return h or 1


def spawn_node(spec, timeout=900):
    env = {
        "PATH": os.environ.get("PATH", "/usr/bin:/bin"),
        "PYTHONHASHSEED": str(spec.get("hash_seed", 0)),
        "PYTHONPATH": "%s:%s" % (repo_dir(), VERIF_DIR),
        "VERIF_REPO": repo_dir(),
        "PYTHONDONTWRITEBYTECODE": "1",
        "HOME": os.environ.get("HOME", "/root"),
    }
    try:
        p = subprocess.run([PY, "-s", "-m", "sim.node"], input=json.dumps(spec),
                           capture_output=True, text=True, env=env, cwd=VERIF_DIR,
                           timeout=timeout)
    except subprocess.TimeoutExpired:
        return {"ok": False, "error": "node timeout after %ss" % timeout, "spec_batch": spec.get("batch")}
    if p.returncode != 0 or not p.stdout.strip():
        return {"ok": False, "error": "node exit %s" % p.returncode,
                "stderr": p.stderr[-2000:], "spec_batch": spec.get("batch")}
    try:
        out = json.loads(p.stdout)
    except ValueError:
        return {"ok": False, "error": "node wrote non-JSON", "stdout": p.stdout[-500:],
                "stderr": p.stderr[-1500:]}
    if not out.get("ok"):
        out["stderr"] = p.stderr[-1500:]
    return out


def run_nodes(specs, workers=None, timeout=900):
    workers = workers or int(os.environ.get("VERIF_WORKERS", "16"))
    if workers <= 1:
        return [spawn_node(s, timeout) for s in specs]
    with ThreadPoolExecutor(max_workers=workers) as ex:
        return list(ex.map(lambda s: spawn_node(s, timeout), specs))


def plan_batches(engine, tier, verif_seed, nbatches, batch_size, params=None, first_batch=0,
                 extra=None):
    specs = []
    for b in range(first_batch, first_batch + nbatches):
        spec = {
            "mode": "batch", "engine": engine, "tier": tier, "verif_seed": verif_seed,
            "batch": b, "run_seeds": list(range(b * batch_size, (b + 1) * batch_size)),
            "hash_seed": hash_seed_for(verif_seed, "%s/%d" % (engine, b), force_zero=(b == first_batch)),
            "params": params or {}, "samples": 1,
        }
        if extra:
            spec.update(extra)
        specs.append(spec)
    return specs
