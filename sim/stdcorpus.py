"""Real-world bytecode workloads: plain functions of pure-Python standard
library modules, named by `module:qualname` (DESIGN 3.1, G-bc).  Only functions
whose bytecode has no exception table and that are not generators/coroutines
(the domain of the bytecode front end) are listed.  The list is a function of
the installed interpreter only (sorted, no hashing involved)."""
import importlib
import inspect

MODULES = [
    "textwrap", "bisect", "heapq", "shlex", "posixpath", "ntpath", "fnmatch", "keyword", "string",
    "statistics", "colorsys", "difflib", "glob", "stat", "copy", "calendar", "base64", "json.decoder",
    "json.encoder", "ipaddress", "urllib.parse", "ast", "dis", "inspect", "tokenize", "argparse", "csv",
    "fractions", "functools", "collections", "enum", "dataclasses", "re._parser", "re._compiler",
    "_pydecimal", "_pydatetime", "random", "pprint", "reprlib", "operator", "numbers", "quopri",
    "uu" if False else "binhex" if False else "getopt", "gettext", "locale", "mimetypes", "optparse",
    "sched", "queue", "socketserver" if False else "sre_parse" if False else "string", "struct" if False else "types",
    "typing", "weakref", "zipfile", "tarfile", "pickle", "pickletools", "platform", "plistlib",
    "email.utils", "email._parseaddr", "html.parser", "http.cookies", "xml.etree.ElementPath",
    "logging", "configparser", "cmd", "code", "codeop", "compileall", "filecmp", "fileinput",
    "graphlib", "hmac", "imghdr" if False else "linecache", "netrc", "nturl2path", "opcode", "pyclbr",
]

_CACHE = None


def _functions_of(modname):
    try:
        mod = importlib.import_module(modname)
    except Exception:
        return []
    out = []

    def consider(qual, fn):
        code = getattr(fn, "__code__", None)
        if code is None or getattr(fn, "__module__", None) != modname:
            return
        if code.co_exceptiontable:
            return
        if code.co_flags & (inspect.CO_GENERATOR | inspect.CO_COROUTINE | inspect.CO_ASYNC_GENERATOR):
            return
        if len(code.co_code) < 12 or len(code.co_code) > 1600:
            return
        out.append(("%s:%s" % (modname, qual), len(code.co_code)))

    for name in sorted(vars(mod)):
        obj = vars(mod)[name]
        if inspect.isfunction(obj):
            consider(name, obj)
        elif inspect.isclass(obj) and obj.__module__ == modname:
            for mname in sorted(vars(obj)):
                m = vars(obj)[mname]
                if inspect.isfunction(m):
                    consider("%s.%s" % (name, mname), m)
    return out


def list_refs(max_code=1600):
    """[ref, ...] of functions whose bytecode is at most max_code bytes."""
    global _CACHE
    if _CACHE is None:
        refs = []
        seen = set()
        for m in MODULES:
            for r, n in _functions_of(m):
                if r not in seen:
                    seen.add(r)
                    refs.append((r, n))
        _CACHE = refs
    return [r for r, n in _CACHE if n <= max_code]
