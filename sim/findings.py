"""Known findings (DESIGN 8.4).  The file is committed and never written at
run time."""
import fnmatch
import json
import os

PATH = os.path.join(os.path.dirname(os.path.dirname(os.path.abspath(__file__))),
                    "known_findings.json")


def load():
    if not os.path.exists(PATH):
        return []
    with open(PATH) as f:
        data = json.load(f)
    return [e for e in data.get("findings", []) if e.get("status") == "known"]


def _fact_ok(want, got):
    if isinstance(want, list):
        return got in want
    return want == got


def match(prop, signature, facts, known=None):
    """Return the known-finding entry that lists this violation, or None.
    Needs the signature AND every `where` fact to agree."""
    known = load() if known is None else known
    for e in known:
        if e.get("property") != prop:
            continue
        if not fnmatch.fnmatchcase(signature, e.get("signature", "")):
            continue
        where = e.get("where") or {}
        if all(_fact_ok(v, facts.get(k)) for k, v in where.items()):
            return e
    return None
