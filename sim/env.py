"""The simulated, fault-injecting environment of ENVSIM (DESIGN 4.4).

Env(seed, faults) is the only thing an executed function can reach outside
itself.  Every interaction is numbered and logged.  The response to interaction
n is a function of (seed, n) and the fault plan only, so two executables given
the same seed see identical responses for as long as their histories agree.
"""
import hashlib

N_MAX = 150

VALUES = [-1, 0, 0, 1, 1, 2, 3, True, False]


class SimFaultA(Exception):
    pass


class SimFaultB(Exception):
    pass


class SimFaultC(Exception):
    pass


class SimBudget(Exception):
    pass


FAULT_CLASSES = [SimFaultA, SimFaultB, SimFaultC]


def _h(seed, n, salt):
    d = hashlib.blake2b(("%s|%s|%s" % (seed, n, salt)).encode("ascii"), digest_size=8).digest()
    return int.from_bytes(d, "big")


def _arg_repr(v):
    if isinstance(v, (int, bool, type(None), str)):
        return repr(v)
    if isinstance(v, tuple):
        return "(" + ",".join(_arg_repr(x) for x in v) + ")"
    if isinstance(v, SimIterable):
        return "<iterable %d>" % v.site
    if isinstance(v, SimObject):
        return "<O>"
    return "<%s>" % type(v).__name__


class Env:
    def __init__(self, seed, faults=None, none_rate=3):
        self.seed = seed
        # faults: {interaction index: kind}, kind in "raise0|raise1|raise2|stop"
        self.faults = {int(k): v for k, v in (faults or {}).items()}
        self.n = 0
        self.history = []
        self.fired = {}
        self.none_rate = none_rate
        self.E = self._call
        self.I = self._iterable
        self.O = SimObject(self)

    # ------------------------------------------------------------ core
    def _interact(self, kind, site, args=None):
        """Log interaction n and return the fault scheduled for it (or None)."""
        n = self.n
        self.n += 1
        self.history.append((n, kind, site, args))
        if n >= N_MAX:
            self.fired["budget"] = self.fired.get("budget", 0) + 1
            raise SimBudget()
        f = self.faults.get(n)
        if f is not None and f.startswith("raise"):
            key = "raise-at-" + kind
            self.fired[key] = self.fired.get(key, 0) + 1
            raise FAULT_CLASSES[int(f[5:]) % 3]()
        return f

    def _value(self, n):
        x = _h(self.seed, n, "v")
        if x % 100 < self.none_rate:
            return None
        return VALUES[(x >> 8) % len(VALUES)]

    # ------------------------------------------------------------ E
    def _call(self, site=None, *args, **kwargs):
        n = self.n
        rec = tuple(_arg_repr(a) for a in args)
        if kwargs:
            rec += tuple("%s=%s" % (k, _arg_repr(v)) for k, v in sorted(kwargs.items()))
        self._interact("call", site, rec)
        return self._value(n)

    # ------------------------------------------------------------ I
    def _iterable(self, site=None, width=None):
        return SimIterable(self, site, width)


class SimIterable:
    def __init__(self, env, site, width=None):
        self.env = env
        self.site = site
        self.width = width

    def __iter__(self):
        self.env._interact("iter", self.site)
        return SimIterator(self.env, self.site, self.width)


class SimIterator:
    def __init__(self, env, site, width=None):
        self.env = env
        self.site = site
        self.width = width
        self.count = 0
        self.done = False

    def __iter__(self):
        return self

    def __next__(self):
        env = self.env
        n = env.n
        f = env._interact("next", self.site)
        if self.done:
            raise StopIteration
        stop = False
        if f == "stop":
            stop = True
            key = "empty-iterable" if self.count == 0 else "early-exhaustion"
            env.fired[key] = env.fired.get(key, 0) + 1
        else:
            # natural length: geometric, mean about 2.5 items
            stop = (_h(env.seed, n, "stop") % 100) < 28
            if stop and self.count == 0:
                env.fired["natural-empty-iterable"] = env.fired.get("natural-empty-iterable", 0) + 1
        if stop:
            self.done = True
            raise StopIteration
        self.count += 1
        if self.width:
            # items of an iterable of tuples (for a, b in I(k, 2))
            return tuple(VALUES[(_h(env.seed, n, "w%d" % j) >> 8) % len(VALUES)] for j in range(self.width))
        return env._value(n)


class SimObject:
    def __init__(self, env):
        object.__setattr__(self, "_env", env)

    def __getattr__(self, name):
        env = object.__getattribute__(self, "_env")
        n = env.n
        env._interact("getattr", name)
        return env._value(n)

    def __setattr__(self, name, value):
        env = object.__getattribute__(self, "_env")
        env._interact("setattr", name, (_arg_repr(value),))

    def __setitem__(self, key, value):
        env = object.__getattribute__(self, "_env")
        env._interact("setitem", _arg_repr(key), (_arg_repr(value),))

    def __getitem__(self, key):
        env = object.__getattribute__(self, "_env")
        n = env.n
        env._interact("getitem", _arg_repr(key))
        return env._value(n)
