"""HISTSIM engine (DESIGN 4.2): operation histories on one graph family with
restart faults.  Decides C14, C15, C18 (and evaluates the C04/C06 state
invariants on undisturbed stage prefixes)."""
import copy

from numba_scfg.core.datastructures.basic_block import (
    SyntheticBlock, SyntheticAssignment, SyntheticBranch, RegionBlock)
from numba_scfg.core.datastructures.scfg import SCFG, NameGenerator
from numba_scfg.core.datastructures import block_names

from sim import graphgen, hier, models, workload
from sim.cosim import innermost_repo_frame, run_schedule, _dist_to_exit, apply_stage, STAGES
from sim.log import EventLog, jdigest
from sim.rng import Rng
from sim.walkers import Viol

# ---------------------------------------------------------------- name observation

ISSUED = []


def install_wrappers():
    """Class-level recording wrappers around the three NameGenerator methods
    (harness-side monkeypatch at an existing seam, DESIGN 2.5)."""
    for meth in ("new_block_name", "new_region_name", "new_var_name"):
        orig = getattr(NameGenerator, meth)
        if getattr(orig, "_sim_wrapped", False):
            continue

        def make(orig, meth):
            def wrapper(self, kind):
                name = orig(self, kind)
                ISSUED.append((meth, kind, name))
                return name
            wrapper._sim_wrapped = True
            wrapper.__name__ = meth
            return wrapper
        setattr(NameGenerator, meth, make(orig, meth))


def is_region(b):
    return isinstance(b, RegionBlock)


def graph_at(g, path):
    cur = g
    for rn in path:
        b = cur.graph.get(rn)
        if not is_region(b) or b.subregion is None:
            return None
        cur = b.subregion
    return cur


def all_paths(g):
    out = [[]]

    def walk(G, path):
        for name, b in G.graph.items():
            if is_region(b) and b.subregion is not None:
                out.append(path + [name])
                walk(b.subregion, path + [name])
    walk(g, [])
    return out


PRESENT_VARS = set()


def present_map(g):
    """name -> identity digest (type + payload) of every block/region in the hierarchy;
    also the list of names bound more than once.  As a side effect PRESENT_VARS
    holds the control variables used anywhere in the hierarchy."""
    m = {}
    dups = []
    PRESENT_VARS.clear()
    for _o, _G, name, b, _d in hier.iter_hier(g):
        ident = [type(b).__name__, hier.payload_of(b)]
        if name in m:
            dups.append(name)
        m[name] = jdigest(ident)
        if isinstance(b, SyntheticBranch):
            PRESENT_VARS.add(b.variable)
        elif isinstance(b, SyntheticAssignment):
            PRESENT_VARS.update(b.variable_assignment.keys())
    return m, dups


NAME_KINDS_BLOCK = [block_names.SYNTH_ASSIGN, block_names.SYNTH_HEAD, block_names.SYNTH_EXIT,
                    block_names.SYNTH_EXIT_LATCH, block_names.SYNTH_RETURN, block_names.SYNTH_TAIL,
                    block_names.SYNTH_FILL, block_names.SYNTH_EXIT_BRANCH, block_names.BASIC,
                    block_names.PYTHON_BYTECODE]
NAME_KINDS_REGION = ["loop", "head", "branch", "tail", "meta"]
NAME_KINDS_VAR = ["control", "exit", "backedge"]
NAME_KINDS_FREE = ["x", "a_block_1", "foo_region_0", "synth_asign_block", "loop_region", "0", "k_var_1",
                   "exit-latch", "exit_latch", "loop.exit", "loop_exit", "a b", "a_b", "control ", "x-1", "x_1"]


# ---------------------------------------------------------------- configuration

def gen_case(rng, tier, params=None):
    params = params or {}
    focus = params.get("focus", "C14")
    quick = tier == "quick"
    cfg = rng.fork("cfg")
    fam = cfg.weighted([("rand", 4), ("struct", 3), ("irred", 3),
                        ("src", 2 if focus == "C15" else 0.7), ("bc", 1.5 if focus == "C15" else 0.5),
                        ("bcref", 1.5 if focus == "C15" else 0.4)])
    nmax = 10 if quick else 16
    n = cfg.randint(3, nmax)
    if focus == "C15" and cfg.chance(0.12):
        # a flat graph of any shape (unreachable blocks, dead cycles, several
        # heads): it can be built through from_dict/from_yaml, so it must
        # round-trip; no stage is ever applied to it
        fam = "open"
        wl = {"kind": "graph", "family": "open", "allow_open": True,
              "blocks": graphgen.gen_open(rng.fork("graph"), n)}
        style = "frontend"
    elif fam == "bcref":
        from sim import stdcorpus
        wl = {"kind": "bcref", "ref": cfg.choice(stdcorpus.list_refs(300 if quick else 1000))}
        style = "frontend"
    elif fam in ("src", "bc"):
        from sim import proggen
        wl = {"kind": fam, "source": proggen.gen_program(rng.fork("prog"), size=cfg.randint(3, 12))}
        style = "frontend"
    else:
        styles = [("frontend", 5), ("generator", 2), ("bytecode", 2)]
        if focus == "C18":
            styles.append(("adversarial", 5))
        style = cfg.weighted(styles)
        wl = {"kind": "graph", "family": fam,
              "blocks": graphgen.gen_graph(rng.fork("graph"), fam, n, style)}
        if focus in ("C15", "C18") and rng.fork("prior").chance(0.15):
            # the generator has served other graphs before this one (seeded change
            # C15-6: the top-level region is then not `meta_region_0`)
            wl["prior_graphs"] = rng.fork("prior-n").randint(1, 3)
    faults = cfg.chance(0.7)
    if focus == "C04":
        # the stage pipeline with name requests interleaved and path probes:
        # no edits, no restarts (every hierarchy reached is a pure stage prefix)
        weights = {"stage": 4, "edit": 0, "name": 4, "restart": 0, "restart2": 0, "probe": 3}
        faults = False
    elif focus == "C14":
        weights = {"stage": 2, "edit": 6, "name": 1, "restart": 1.0, "restart2": 0.3, "probe": 1.5}
    elif focus == "C15":
        weights = {"stage": 3, "edit": 1.5, "name": 0.5, "restart": 4, "restart2": 1.5, "probe": 0.3}
    else:
        weights = {"stage": 3, "edit": 1.5, "name": 5, "restart": 2.5, "restart2": 0.5, "probe": 0.3}
    enabled = {"restart-dict": cfg.chance(0.8), "restart-yaml": cfg.chance(0.6), "restart2": cfg.chance(0.5)}
    if not faults:
        enabled = {"restart-dict": False, "restart-yaml": False, "restart2": False}
    if fam == "open":
        weights = {"stage": 0, "edit": 0, "name": 1, "restart": 6, "restart2": 3, "probe": 0}
        faults = True
        enabled = {"restart-dict": True, "restart-yaml": True, "restart2": True}
    conf = {
        "focus": focus, "faults": faults, "enabled": enabled, "weights": weights,
        "nops": cfg.randint(2, 12) if cfg.chance(0.8) else cfg.randint(12, 40 if not quick else 24),
        "allow_overlap": cfg.chance(0.1),
        "allow_multi_S_plain": cfg.chance(0.25),
        "edit_kinds": {"insert": 4, "control": 3 if cfg.chance(0.8) else 0,
                       "join_returns": 1, "jte": 2 if cfg.chance(0.7) else 0},
        "pre_stages": (cfg.weighted([(0, 3), (1, 1), (2, 3), (3, 2)]) if focus == "C14"
                       else 0 if (focus == "C04" or fam == "open") else cfg.weighted([(0, 5), (1, 1), (2, 1), (3, 1)])),
        "literal_names": cfg.chance(0.4),
        "allow_be_in_S": cfg.chance(0.15),
        "style": style,
    }
    return {"engine": "histsim", "workload": wl, "conf": conf,
            "hist_seed": rng.fork("hist").randrange(2 ** 48)}


# ---------------------------------------------------------------- the world

class World:
    def __init__(self, case, log):
        self.case = case
        self.log = log
        self.g, self.genesis = workload.build(case["workload"])
        self.originals = {d[0]: len(d[2]) for d in self.genesis}
        self.stage = 0
        self.issued = set()
        self.path_ok = True      # all edits so far path-preserving, no lossy restart
        self.pristine = True     # no edit, no restart so far (C04/C06 state invariants apply)
        self.after_restart = False
        self.restarts = 0
        self.lit = 0
        self.viols = []
        self.seen_sig = set()
        self.stats = {"ops": 0, "stages": 0, "edits": 0, "names": 0, "restarts_fired": 0,
                      "restart_dict": 0, "restart_yaml": 0, "restart2": 0, "probes": 0,
                      "probe_steps": 0, "edit_skipped": 0, "restart_failed": 0,
                      "w1_steps": 0, "w2_steps": 0, "c06_branch_events": 0,
                      "names_observed": 0}
        self.reach = {}
        self.states = []
        self.step = 0
        self.var_reuse_after_restart = 0
        self.present_vars_at_restart = set()

    def viol(self, prop, cls, shape, where, detail, extra=None):
        sig = "%s:%s" % (prop, cls)
        if shape:
            sig += ":" + shape
        if sig in self.seen_sig:
            return
        self.seen_sig.add(sig)
        rec = {"property": prop, "signature": sig, "class": cls, "step": self.step,
               "where": where, "detail": (detail or "")[:400], "shape": shape}
        if extra:
            rec.update(extra)
        self.viols.append(rec)
        self.log.add("violation", [self.step, sig, where])

    def probe_hit(self, name):
        self.reach[name] = self.reach.get(name, 0) + 1


# ---------------------------------------------------------------- op generation (online)

def _fresh_literal(w):
    w.lit += 1
    return "L%d" % w.lit


def gen_op(w, rng, conf):
    wts = conf["weights"]
    en = conf["enabled"]
    items = [("stage", wts["stage"] if w.stage < 3 else 0), ("edit", wts["edit"]), ("name", wts["name"]),
             ("probe", wts["probe"] if w.path_ok else 0)]
    if en["restart-dict"] or en["restart-yaml"]:
        boost = 2.5 if w.last_kind in ("stage", "edit") else 1.0
        items.append(("restart", wts["restart"] * boost))
    if en["restart2"] and (en["restart-dict"] or en["restart-yaml"]):
        items.append(("restart2", wts["restart2"]))
    kind = rng.weighted(items)
    if kind == "stage":
        return {"op": "stage"}
    if kind == "probe":
        return {"op": "probe", "seed": rng.randrange(2 ** 32)}
    if kind in ("restart", "restart2"):
        fmts = [f for f, k in (("dict", "restart-dict"), ("yaml", "restart-yaml")) if en[k]]
        if kind == "restart":
            return {"op": "restart", "fmt": rng.choice(fmts)}
        return {"op": "restart2", "fmt1": rng.choice(fmts), "fmt2": rng.choice(fmts)}
    paths = all_paths(w.g)
    if kind == "name":
        path = rng.choice(paths) if rng.chance(0.5) else []
        method = rng.choice(["block", "region", "var"])
        pool = {"block": NAME_KINDS_BLOCK, "region": NAME_KINDS_REGION, "var": NAME_KINDS_VAR}[method]
        if rng.chance(0.25):
            pool = NAME_KINDS_BLOCK + NAME_KINDS_REGION + NAME_KINDS_VAR + NAME_KINDS_FREE
        op = {"op": "name", "method": method, "kind": rng.choice(pool), "where": path}
        if rng.chance(0.15):
            # a burst of requests pushes the counter of that kind into two digits
            # (multi-digit indices are where parsing of names can go wrong)
            op["repeat"] = rng.randint(9, 13)
        return op
    # edit
    path = rng.choice(paths) if (len(paths) > 1 and rng.chance(0.35)) else []
    if len(paths) > 1 and rng.chance(0.2):
        # reach probe "predecessor with a declared back edge": such blocks only
        # live inside loop regions
        bepaths = [pp for pp in paths if any(b.backedges for b in graph_at(w.g, pp).graph.values())]
        if bepaths:
            path = rng.choice(bepaths)
    G = graph_at(w.g, path)
    names = list(G.graph.keys())
    ek = rng.weighted(sorted(conf["edit_kinds"].items()))
    if ek == "join_returns":
        return {"op": "edit", "kind": "join_returns", "where": path}
    preds = {n: [] for n in names}
    for n in names:
        b = G.graph[n]
        for t in b._jump_targets:
            if t in preds and (t not in b.backedges or conf.get("allow_be_in_S")):
                preds[t].append(n)
    with_pred = [n for n in names if preds[n]]
    if not with_pred:
        return {"op": "edit", "kind": "join_returns", "where": path}
    s0 = rng.choice(with_pred)
    be_targets = [t for n in names if G.graph[n].backedges for t in G.graph[n]._jump_targets if t in preds and preds[t]]
    if be_targets and rng.chance(0.5):
        s0 = rng.choice(be_targets)
    S = [s0]
    nS = rng.weighted([(1, 6), (2, 3), (3, 1)])
    if ek == "insert" and not conf["allow_multi_S_plain"]:
        nS = 1
    p0 = rng.choice(preds[s0])
    # prefer a second successor of the same predecessor (several arcs into S)
    sib = [t for t in G.graph[p0]._jump_targets if t != s0 and t in preds and t not in G.graph[p0].backedges]
    while len(S) < nS:
        c = rng.choice(sib) if sib and rng.chance(0.6) else rng.choice(names)
        if c not in S:
            S.append(c)
        else:
            break
    if ek == "insert" and rng.chance(0.08):
        S = []
    cand = []
    for s in S:
        for p in preds[s]:
            if p not in cand:
                cand.append(p)
    if not cand:
        cand = [p0]
    if rng.chance(0.15):
        extra = rng.choice(names)
        if extra not in cand:
            cand.append(extra)
    # bias towards interesting predecessors
    interesting = [p for p in cand if is_region(G.graph[p]) or isinstance(G.graph[p], SyntheticBranch)
                   or G.graph[p].backedges]
    k = rng.randint(1, min(4, len(cand)))
    P = rng.sample(cand, k)
    if interesting and rng.chance(0.7):
        q = rng.choice(interesting)
        if q not in P:
            P[0] = q
    if not S:
        exits = [n for n in names if not G.graph[n]._jump_targets]
        P = rng.sample(exits, min(len(exits), rng.randint(1, 2))) if exits and rng.chance(0.7) else P[:1]
    be_blocks = [n for n in names if G.graph[n].backedges and n not in P]
    if be_blocks and rng.chance(0.3):
        # a predecessor with a declared back edge, whether or not it has an arc
        # into S: its back-edge target must survive the edit
        P.append(rng.choice(be_blocks))
    if not conf["allow_overlap"]:
        P = [p for p in P if p not in S]
    # (almost) never put a back-edge target of p into S: the statement is silent there
    if not conf.get("allow_be_in_S"):
        P = [p for p in P if not (set(G.graph[p].backedges) & set(S))]
    if not P:
        return {"op": "edit", "kind": "join_returns", "where": path}
    P = sorted(set(P), key=P.index)
    new = ("lit:" + _fresh_literal(w)) if conf["literal_names"] and rng.chance(0.5) else "gen"
    if ek == "jte":
        return {"op": "edit", "kind": "jte", "where": path, "tails": P, "exits": S}
    if ek == "control":
        return {"op": "edit", "kind": "control", "where": path, "new": new, "P": P, "S": S}
    return {"op": "edit", "kind": "insert", "btype": rng.choice(["exit", "tail", "return", "fill"]),
            "where": path, "new": new, "P": P, "S": S}


# ---------------------------------------------------------------- op execution + checks

def _exc_sig(e):
    return "%s@%s" % (type(e).__name__, innermost_repo_frame(e))


def _graph_has(g):
    has = set()
    for _o, _G, _n, b, _d in hier.iter_hier(g):
        has.add(type(b).__name__)
    return sorted(has)


def check_names_after_op(w, ev_start, present_before, opdesc, vars_before=frozenset()):
    """C18 invariants 1 and 2 after one operation."""
    events = ISSUED[ev_start:]
    w.stats["names_observed"] += len(events)
    after = "restart" if w.after_restart else "none"
    now_in_op = set()
    for meth, kind, name in events:
        if name in now_in_op or name in w.issued:
            w.viol("C18", "name-reused", "method=%s" % meth, name,
                   "%s(%r) returned %s which was handed out before (op %s)" % (meth, kind, name, opdesc))
        elif name in present_before:
            w.viol("C18", "name-collides-with-present-block", "after=%s" % after, name,
                   "%s(%r) returned %s, the name of a block/region already present in the hierarchy (op %s)" % (
                       meth, kind, name, opdesc),
                   {"after_restart": w.after_restart})
        elif meth == "new_var_name" and name in vars_before:
            # the first sentence of the statement covers variable names too: a
            # variable that is in use in the graph was handed out before for it
            w.viol("C18", "variable-collides-with-present-variable", "after=%s" % after, name,
                   "%s(%r) returned %s, a control variable already used in the hierarchy (op %s)" % (
                       meth, kind, name, opdesc), {"after_restart": w.after_restart})
        if meth == "new_var_name" and name in w.present_vars_at_restart:
            w.var_reuse_after_restart += 1
        now_in_op.add(name)
    w.issued |= now_in_op
    present_after, dups = present_map(w.g)
    for name in sorted(now_in_op):
        if name in present_before and name in present_after and present_after[name] != present_before[name]:
            w.viol("C18", "block-overwritten", "after=%s" % after, name,
                   "generated name %s now binds a different block than before op %s" % (name, opdesc),
                   {"after_restart": w.after_restart})
    # a name bound in two places counts only if the generator handed it out in this
    # incarnation (a reload of a hierarchy that edits + stages left inconsistent can
    # duplicate blocks by itself; that is neither C18's nor -- after edits -- C15's claim)
    dups = [d for d in dups if d in w.issued]
    if dups:
        w.viol("C18", "name-bound-twice", "after=%s" % after, dups[0],
               "names bound in two places of the hierarchy: %s" % dups[:4], {"after_restart": w.after_restart})
    return present_after


def do_stage(w):
    if w.stage >= 3:
        return "skip"
    try:
        apply_stage(w.g, w.stage + 1)
    except Exception as e:
        return "STAGE-RAISED:%s:%s" % (STAGES[w.stage + 1], _exc_sig(e))
    w.stage += 1
    w.stats["stages"] += 1
    if not w.pristine:
        # a stage applied to an edited / re-read graph: a later path difference
        # could be the stage's doing (C01 territory), so C14's path oracle stops
        w.path_ok = False
    if w.pristine:
        for prop, cls, where, detail in hier.state_invariants(w.g):
            w.viol(prop, cls, "after=%s" % STAGES[w.stage], where, detail, {"stage": w.stage})
    return None


def _heads(G):
    tg = set(t for b in G.graph.values() for t in b._jump_targets)
    return sum(1 for n in G.graph if n not in tg)


def do_edit(w, op):
    G = graph_at(w.g, op["where"])
    if G is None:
        return "skip"
    h0 = _heads(G)
    out = _do_edit(w, op, G)
    if _heads(G) > max(h0, 1):
        # the edit left a block nothing points at (e.g. tails without an arc into
        # the exits): legal, but the graph can no longer be walked from one head
        w.path_ok = False
    return out


def _do_edit(w, op, G):
    kind = op["kind"]
    pre = models.snap_graph(G)
    if kind == "join_returns":
        if any(r["targets"] and all(t in r["backedges"] for t in r["targets"]) for r in pre.values()):
            return "skip"
        if any(is_region(b) and not b._jump_targets for b in G.graph.values()) \
                and hier.state_invariants(w.g, want=("C04",)):
            w.probe_hit("edit-skipped:inconsistent-hierarchy")
            return "skip"
        try:
            CURRENT["in_library"] = True
            G.join_returns()
            CURRENT["in_library"] = False
        except Exception as e:
            CURRENT["in_library"] = False
            w.viol("C14", "edit-raised", "op=join_returns:%s" % _exc_sig(e), "-", str(e))
            w.path_ok = False
            return None
        for cls, det in models.post_join_returns(G, pre):
            w.viol("C14", cls, "op=join_returns", "-", det)
        return None
    if kind == "jte":
        tails = [t for t in op["tails"] if t in G.graph]
        exits = [e for e in op["exits"] if e in G.graph and e not in tails]
        if not tails or not exits:
            return "skip"
        if any(set(G.graph[t].backedges) & set(exits) for t in tails):
            return "skip"
        if any(is_region(G.graph[t]) for t in tails) and hier.state_invariants(w.g, want=("C04",)):
            # as for insert/control below: a region predecessor in a hierarchy that a
            # stage applied to a freely edited graph (or its reload) left inconsistent
            # is not a valid input (thorough run, seed 20260924: KeyError in _reroute)
            w.probe_hit("edit-skipped:inconsistent-hierarchy")
            return "skip"
        shape = "op=jte:tails=%s:exits=%s" % (min(len(tails), 2), min(len(exits), 3))
        ev0 = len(ISSUED)
        present, _d = present_map(w.g)
        try:
            CURRENT["in_library"] = True
            ret = G.join_tails_and_exits(list(tails), list(exits))
            CURRENT["in_library"] = False
        except Exception as e:
            CURRENT["in_library"] = False
            w.viol("C14", "edit-raised", shape + ":" + _exc_sig(e), "-", str(e)[:200],
                   {"tags": models.shape_of(G, tails, exits)})
            w.path_ok = False
            return None
        if any(name in present for _m, _k, name in ISSUED[ev0:]):
            w.path_ok = False  # generated name clashed with a present block: C18's subject
            return None
        for cls, det in models.post_jte(G, pre, tails, exits, ret):
            w.viol("C14", cls, shape, "-", det)
            w.path_ok = False
        if len(exits) >= 2:
            w.path_ok = False
        return None
    # insert / control
    P = [p for p in op["P"] if p in G.graph]
    S = [s for s in op["S"] if s in G.graph]
    if not P or (op["S"] and not S):
        return "skip"
    be_in_S = any(set(G.graph[p].backedges) & set(S) for p in P)
    if be_in_S and (kind == "control" or not w.case["conf"].get("allow_be_in_S")):
        return "skip"
    if any(is_region(G.graph[p]) for p in P) and hier.state_invariants(w.g, want=("C04",)):
        # a region predecessor in a hierarchy that is not self-consistent (a stage
        # was applied to a freely edited, possibly no longer closed graph): not a
        # valid input for an edit, nothing to conclude about C14
        w.probe_hit("edit-skipped:inconsistent-hierarchy")
        return "skip"
    tags = models.shape_of(G, P, S)
    for t in tags:
        w.probe_hit("edit:" + t)
    shape = "op=%s" % kind + ("".join(":" + t for t in tags))
    if op["new"] == "gen":
        bk = {"insert": {"exit": block_names.SYNTH_EXIT, "tail": block_names.SYNTH_TAIL,
                         "return": block_names.SYNTH_RETURN, "fill": block_names.SYNTH_FILL}.get(op.get("btype"), ""),
              "control": block_names.SYNTH_HEAD}
        new = G.name_gen.new_block_name(bk["control"] if kind == "control" else bk["insert"])
    else:
        new = op["new"][4:]
    present, _d = present_map(w.g)
    new_was_present = new in present
    if new_was_present and op["new"] != "gen":
        return "skip"
    # path-preservation bookkeeping (DESIGN 5, C14)
    preserving = True
    if kind == "insert":
        if len(S) >= 2:
            preserving = False
        if not S and any(G.graph[p]._jump_targets for p in P):
            preserving = False
    if set(P) & set(S):
        preserving = preserving  # self arcs stay path-preserving
    ev0 = len(ISSUED)
    try:
        CURRENT["in_library"] = True
        if kind == "control":
            G.insert_block_and_control_blocks(new, list(P), list(S))
        else:
            fn = {"exit": G.insert_SyntheticExit, "tail": G.insert_SyntheticTail,
                  "return": G.insert_SyntheticReturn, "fill": G.insert_SyntheticFill}[op["btype"]]
            fn(new, list(P), list(S))
        CURRENT["in_library"] = False
    except Exception as e:
        CURRENT["in_library"] = False
        w.viol("C14", "edit-raised", shape + ":" + _exc_sig(e), new, str(e)[:200], {"tags": tags})
        w.path_ok = False
        return None
    if kind == "control":
        errs = models.post_control(G, pre, new, P, S, new_was_present, ISSUED[ev0:])
    else:
        errs = models.post_insert(G, pre, new, P, S, op["btype"], new_was_present)
    for cls, det in errs:
        w.viol("C14", cls, shape, new, det, {"tags": tags})
    if errs or not preserving or new_was_present or be_in_S:
        w.path_ok = False
    if be_in_S:
        w.probe_hit("edit:backedge-target-in-S")
    targeted = set(t for r in pre.values() for t in r["targets"])
    if any(s_ not in targeted for s_ in S):
        # S names a block nothing pointed at (the head of this graph): legal,
        # but afterwards the graph has no unique head to start a walk from
        w.path_ok = False
    if not S and op["where"]:
        # appending a successor-less block inside a region's graph: the region's
        # recorded exiting block is no longer where execution ends (the edit
        # primitives do not maintain region metadata and C14 does not say they do)
        w.path_ok = False
    if not any(new in b._jump_targets for b in G.graph.values()):
        # the inserted block is unreachable (no predecessor had an arc into S):
        # legal, but the hierarchy then has two heads and cannot be walked
        w.path_ok = False
    return None


def do_probe(w, op, conf):
    """Path oracle: W0/W1/W2 against genesis on the current (edited) hierarchy."""
    if not w.path_ok:
        return "skip"
    dist = _dist_to_exit(w.genesis)
    nblocks = len(hier.hier_names(w.g))
    rng = Rng(op["seed"], "probe")
    covered = set()
    stats = {"w1_steps": 0, "w2_steps": 0, "c06_branch_events": 0}
    L = 4 * len(w.genesis) + 8
    explicit = op.get("decisions")
    scheds = [explicit] if explicit is not None else [None] * 6
    for si, ex in enumerate(scheds):
        decisions, viols, _info = run_schedule(w.g, w.genesis, w.originals, dist, nblocks,
                                                rng.fork(si), covered, ex, L, stats)
        w.stats["probe_steps"] += stats["w1_steps"]
        for v in viols:
            if w.stats["edits"] == 0 and not w.after_restart:
                # nothing edited, nothing re-read: a pure stage prefix (with name
                # requests interleaved) -- C01/C04/C06 themselves
                w.viol(v.prop, v.cls, "after=%s:interleaved-names" % STAGES[w.stage], v.where, v.detail,
                       {"decisions": decisions, "stage": w.stage})
                if v.prop != "C01":
                    w.viol("C01", "walk-aborted(%s)" % v.cls, "after=%s:interleaved-names" % STAGES[w.stage],
                           v.where, v.detail, {"decisions": decisions, "stage": w.stage})
                continue
            prop = "C14" if not w.after_restart else "C15"
            w.viol(prop, "path-changed(%s)" % v.cls,
                   "after=edits" if prop == "C14" else "after=restart", v.where, v.detail,
                   {"decisions": decisions, "orig_prop": v.prop})
    for k in ("w1_steps", "w2_steps", "c06_branch_events"):
        w.stats[k] += stats[k]
    return None


def _write(g, fmt):
    return g.to_dict() if fmt == "dict" else g.to_yaml()


def _read(blob, fmt):
    if fmt == "dict":
        return SCFG.from_dict(blob)[0]
    return SCFG.from_yaml(blob)[0]


def do_restart(w, fmts):
    """Crash-restart through the serialised form: only what was written survives."""
    ok_all = True
    # C15 quantifies over graphs from the front ends at every stage prefix and
    # over write/read chains -- not over free-form edits (an edit may legally
    # leave an unreachable block inside a region, which has no serial form).
    # After an edit the restart is still injected, but carries no C15 verdict.
    verdict = w.stats["edits"] == 0

    def c15(cls, shape_, where_, detail_, facts_):
        if verdict:
            w.viol("C15", cls, shape_, where_, detail_, facts_)

    for fmt in fmts:
        _pm, dups = present_map(w.g)
        if dups:
            # the live hierarchy binds a name twice (a name clash happened
            # earlier, C18's subject): it has no name-keyed serial form, so this
            # restart says nothing about C15
            w.stats["restart_failed"] += 1
            w.probe_hit("restart-on-corrupt-hierarchy")
            return False
        has = _graph_has(w.g)
        shape = "fmt=%s" % fmt
        facts = {"graph_has": has, "fmt": fmt, "stage": w.stage,
                 "has_region": "RegionBlock" in has, "has_ast": "PythonASTBlock" in has,
                 "has_bytecode": "PythonBytecodeBlock" in has}
        try:
            blob = _write(w.g, fmt)
            blob_copy = copy.deepcopy(blob)
        except Exception as e:
            c15("write-raised", "%s:%s" % (_exc_sig(e), shape), "-", str(e)[:200], facts)
            w.stats["restart_failed"] += 1
            return False
        ev_read = len(ISSUED)
        try:
            g2 = _read(blob, fmt)
        except Exception as e:
            c15("read-raised", "%s:%s" % (_exc_sig(e), shape), "-", str(e)[:200], facts)
            w.stats["restart_failed"] += 1
            return False
        fa, fb = hier.canon_fields(w.g), hier.canon_fields(g2)
        d = hier.first_diff(fa, fb)
        lossy = False
        if d is not None:
            lossy = True
            name, field = d
            typ = (fa.get(name) or fb.get(name) or {}).get("type", "?")
            c15("roundtrip-mismatch", "field=%s:%s" % (field, shape), name,
                   "block %s (%s): live=%r reread=%r" % (name, typ, (fa.get(name) or {}).get(field.split("-")[0]),
                                                         (fb.get(name) or {}).get(field.split("-")[0])),
                   dict(facts, field=field, block_type=typ))
        try:
            blob2 = _write(g2, fmt)
            if blob2 != blob_copy:
                c15("rewrite-differs", shape, "-", "writing the re-read graph gives a different %s" % fmt, facts)
        except Exception as e:
            c15("rewrite-raised", "%s:%s" % (_exc_sig(e), shape), "-", str(e)[:200], facts)
        # the crash: drop the live object, continue on what was read back.  The old
        # incarnation is kept as a ghost only to observe that later edits of the new
        # one do not reach into it ("changes no other block": seeded change C14-9,
        # a value table shared between the written and the re-read graph)
        w.ghost = w.g
        w.ghost_digest = jdigest(fa)
        w.g = g2
        # names handed out while reading back belong to the new incarnation (and only
        # those: a read that failed half-way used a generator that is thrown away --
        # false `name-reused` met by the multi-seed sweep, seed 700)
        w.issued = set(name for _m, _k, name in ISSUED[ev_read:])
        w.after_restart = True
        w.pristine = False
        if lossy:
            w.path_ok = False
            ok_all = False
        w.restarts += 1
        w.stats["restarts_fired"] += 1
        w.stats["restart_" + fmt] += 1
        w.probe_hit("restart@stage%d" % w.stage)
        vars_now = set()
        for _o, _G, _n, b, _d in hier.iter_hier(w.g):
            if isinstance(b, SyntheticBranch):
                vars_now.add(b.variable)
            if isinstance(b, SyntheticAssignment):
                vars_now.update(b.variable_assignment.keys())
        w.present_vars_at_restart = vars_now
    return ok_all


CURRENT = {"op": None, "step": None, "history": None}


def timeout_context(case):
    """Called by the node when the wall-clock guard fired during a run: if the
    library was inside an edit primitive, that call did not terminate (edits are
    linear in the size of a <= 40 block graph; the guard is tens of seconds)."""
    op = CURRENT["op"]
    if op is None or op.get("op") != "edit" or not CURRENT.get("in_library"):
        return []
    hist = list(CURRENT["history"] or [])
    return [{"property": "C14", "signature": "C14:edit-did-not-terminate:op=%s" % op.get("kind"),
             "class": "edit-did-not-terminate", "step": CURRENT["step"], "where": "-",
             "shape": "op=%s" % op.get("kind"),
             "detail": "the wall-clock guard fired while the library was executing %r" % (op,),
             "history": hist}]


def apply_op(w, op, conf):
    kind = op["op"]
    CURRENT["op"] = op
    CURRENT["in_library"] = False
    ev0 = len(ISSUED)
    present_before, _d = present_map(w.g)
    vars_before = frozenset(PRESENT_VARS)
    outcome = None
    if kind == "stage":
        outcome = do_stage(w)
    elif kind == "edit":
        outcome = do_edit(w, op)
        if outcome is None:
            w.stats["edits"] += 1
            w.pristine = False
            if getattr(w, "ghost", None) is not None:
                try:
                    now = jdigest(hier.canon_fields(w.ghost))
                except Exception:
                    now = "unreadable"
                w.stats["ghost_checks"] = w.stats.get("ghost_checks", 0) + 1
                if now != w.ghost_digest:
                    w.viol("C14", "other-block-changed", "op=%s:in-previous-incarnation" % op.get("kind"), "-",
                           "an edit of the re-read graph changed a block of the graph object that had been written")
                    w.ghost_digest = now
        else:
            w.stats["edit_skipped"] += 1
    elif kind == "name":
        G = graph_at(w.g, op["where"])
        if G is None:
            outcome = "skip"
        else:
            meth = {"block": "new_block_name", "region": "new_region_name", "var": "new_var_name"}[op["method"]]
            for _rep in range(op.get("repeat", 1)):
                getattr(G.name_gen, meth)(op["kind"])
                w.stats["names"] += 1
            if op.get("repeat"):
                w.probe_hit("name-burst")
            if len(op["where"]) >= 2:
                w.probe_hit("name-on-depth>=2")
    elif kind == "restart":
        do_restart(w, [op["fmt"]])
    elif kind == "restart2":
        w.stats["restart2"] += 1
        do_restart(w, [op["fmt1"], op["fmt2"]])
    elif kind == "probe":
        outcome = do_probe(w, op, conf)
        if outcome is None:
            w.stats["probes"] += 1
    if kind in ("restart", "restart2"):
        w.stats["names_observed"] += len(ISSUED) - ev0
    else:
        check_names_after_op(w, ev0, present_before, kind, vars_before)
    return outcome


# ---------------------------------------------------------------- one run

def run_case(case, keep_log=False):
    install_wrappers()
    del ISSUED[:]
    log = EventLog(keep=keep_log)
    res = {"violations": [], "inconclusive": None, "nontrivial": False, "stats": {},
           "states": [], "reach": {}}
    wl = case["workload"]
    conf = case["conf"]
    log.add("workload", jdigest(wl))
    try:
        w = World(case, log)
    except workload.Skip as s:
        res["inconclusive"] = "SKIP:" + s.reason
        res["log_digest"] = log.digest()
        res["case_digest"] = jdigest(wl)
        return res
    # names issued while building (front ends use the generator)
    for _m, _k, name in ISSUED:
        w.issued.add(name)
    w.last_kind = None
    explicit = case.get("history")
    rng = Rng(case.get("hist_seed", 0), "history")
    history = []
    nops = len(explicit) if explicit is not None else conf["nops"]
    pre_stages = conf.get("pre_stages", 0) if explicit is None else 0
    i = 0
    while i < nops:
        if explicit is not None:
            op = explicit[i]
        elif i < pre_stages:
            op = {"op": "stage"}
        else:
            op = gen_op(w, rng.fork(i), conf)
        i += 1
        w.step = len(history)
        history.append(op)
        CURRENT["step"] = w.step
        CURRENT["history"] = history
        log.add("op", op)
        try:
            outcome = apply_op(w, op, conf)
            dg = hier.digest_ordered(w.g)
        except RecursionError:
            # a hierarchy that contains itself (only seen after a name clash has
            # overwritten a region): nothing further can be evaluated on it
            res["inconclusive"] = "HIERARCHY-CYCLIC"
            log.add("state", ["cyclic"])
            break
        w.stats["ops"] += 1
        w.last_kind = op["op"]
        w.states.append(dg)
        log.add("state", [dg, outcome])
        if outcome and outcome.startswith("STAGE-RAISED"):
            res["inconclusive"] = outcome
            break
    res["violations"] = w.viols
    res["stats"] = w.stats
    res["states"] = w.states
    try:
        kinds = hier.count_kinds(w.g)
    except RecursionError:
        kinds = {"regions": 0}
    w.reach.update({"final_stage": w.stage, "restarts": w.restarts,
                    "kind": wl["kind"] + ":" + wl.get("family", ""),
                    "var_reuse_after_restart": w.var_reuse_after_restart,
                    "regions": min(kinds["regions"], 20)})
    res["reach"] = w.reach
    res["history"] = history
    worked = (w.stats["stages"] + w.stats["edits"]) >= 1
    res["nontrivial"] = bool(worked and (not conf["faults"] or w.stats["restarts_fired"] >= 1))
    res["case_digest"] = jdigest([wl, history])
    res["log_digest"] = log.digest()
    for v in w.viols:
        v["history"] = history[: v["step"] + 1]
    if keep_log:
        res["log"] = log.events
    return res


# ---------------------------------------------------------------- replay / shrink / facts

def case_for_violation(case, viol):
    c = dict(case)
    c["history"] = viol["history"]
    return c


def shrink_candidates(case, viol):
    from sim import reducers
    h = case.get("history") or []
    # drop ops (larger chunks first)
    n = len(h)
    chunk = max(1, n // 2)
    while chunk >= 1:
        for i in range(0, n - chunk + 1):
            yield dict(case, history=h[:i] + h[i + chunk:])
        chunk //= 2
    # simplify op arguments
    for i, op in enumerate(h):
        if op["op"] == "edit":
            for key in ("P", "S", "tails", "exits"):
                if key in op and len(op[key]) > 1:
                    for j in range(len(op[key])):
                        nop = dict(op)
                        nop[key] = op[key][:j] + op[key][j + 1:]
                        yield dict(case, history=h[:i] + [nop] + h[i + 1:])
            if op.get("where"):
                pass
        if op["op"] == "restart" and op["fmt"] == "yaml":
            yield dict(case, history=h[:i] + [dict(op, fmt="dict")] + h[i + 1:])
        if op["op"] == "restart2":
            yield dict(case, history=h[:i] + [{"op": "restart", "fmt": op["fmt1"]}] + h[i + 1:])
            yield dict(case, history=h[:i] + [{"op": "restart", "fmt": op["fmt2"]}] + h[i + 1:])
        if op["op"] == "probe" and op.get("decisions"):
            d = op["decisions"]
            for cut in range(len(d)):
                yield dict(case, history=h[:i] + [dict(op, decisions=d[:cut])] + h[i + 1:])
    wl = case["workload"]
    if wl["kind"] == "graph":
        for nd in reducers.shrink_graph(wl["blocks"]):
            yield dict(case, workload=dict(wl, blocks=nd))
    elif wl["kind"] in ("src", "bc"):
        for ns in reducers.shrink_source(wl["source"]):
            yield dict(case, workload=dict(wl, source=ns))


def where_facts(case, viol):
    facts = {"class": viol.get("class"), "shape": viol.get("shape")}
    for k in ("graph_has", "fmt", "stage", "field", "block_type", "after_restart", "tags",
              "has_region", "has_ast", "has_bytecode"):
        if k in viol:
            facts[k] = viol[k]
    if case is not None:
        facts["name_style"] = (case.get("conf") or {}).get("style")
        facts["workload_kind"] = case["workload"]["kind"]
    return facts
