"""Check driver: plans the fleet for one property, aggregates results, triages
violations against known findings, minimises, writes replay and evidence."""
import collections
import json
import os
import sys
import time

from sim import fleet, findings
from sim.log import jdigest

VERIF_DIR = fleet.VERIF_DIR
# the sensitivity self-test points both at a scratch directory so that a run
# against a mutated copy never clobbers the evidence of /repo
EVID_DIR = os.environ.get("VERIF_EVIDENCE_DIR") or os.path.join(VERIF_DIR, "evidence")
REPLAY_DIR = os.environ.get("VERIF_REPLAY_DIR") or os.path.join(VERIF_DIR, "replays")

DEFAULT_SEED = 20260924

# property -> engine, per-tier plan (batches, batch size) and engine params
PROPS = {
    # "also": a second engine whose runs can yield violations of the same property
    # (HISTSIM focus C04 = the stage pipeline with name requests interleaved and
    # path probes, no edits, no restarts: DESIGN 5, C04 "+ HISTSIM states")
    "C01": {"engine": "cosim", "quick": (480, 40), "thorough": (4800, 40), "params": {},
            "also": ("histsim", {"focus": "C04"}, {"quick": (96, 60), "thorough": (960, 60)})},
    "C04": {"engine": "cosim", "quick": (480, 40), "thorough": (4800, 40), "params": {},
            "also": ("histsim", {"focus": "C04"}, {"quick": (96, 60), "thorough": (960, 60)})},
    "C06": {"engine": "cosim", "quick": (480, 40), "thorough": (4800, 40), "params": {},
            "also": ("histsim", {"focus": "C04"}, {"quick": (96, 60), "thorough": (960, 60)})},
    "C14": {"engine": "histsim", "quick": (384, 60), "thorough": (6400, 60), "params": {"focus": "C14"}},
    "C15": {"engine": "histsim", "quick": (384, 60), "thorough": (6400, 60), "params": {"focus": "C15"}},
    "C18": {"engine": "histsim", "quick": (384, 60), "thorough": (6400, 60), "params": {"focus": "C18"}},
    "C07": {"engine": "envsim", "quick": (480, 30), "thorough": (2400, 30), "params": {"focus": "C07"}},
    "C08": {"engine": "envsim", "quick": (480, 30), "thorough": (2400, 30), "params": {"focus": "C08"}},
    "C12": {"engine": "hashsim", "quick": (48, 0), "thorough": (256, 0), "params": {}},
}

RULES = {
    "cosim": "one run = one seeded closed CFG (families rand/struct/irred/src/bc, swarm-configured) "
             "pushed through the stage pipeline; at each stage prefix the state invariants are evaluated and m "
             "coverage-guided seeded decision schedules are executed on W0/W1/W2 in lockstep. distinct = distinct "
             "(workload, schedule seed) digest; non-trivial = final hierarchy has >=1 region or branching synthetic "
             "block AND some schedule took >=3 decisions",
    "histsim": "one run = one seeded graph workload plus a seeded history of stage/edit/name/restart/probe "
               "operations checked op by op against reference models. distinct = distinct (workload, history) "
               "digest; non-trivial = >=1 stage or edit applied and, in fault-enabled runs, >=1 restart fault fired",
    "envsim": "one run = one seeded program run through the source pipeline, then executed (original R, "
              "regenerated T, block interpreter B) against seeded fault-injecting environments. distinct = "
              "distinct (program, env seeds) digest; non-trivial = program has >=1 branch or loop and >=2 distinct "
              "interaction histories were observed across its schedules",
    "hashsim": "one evaluation = one job execution on one node (child interpreter with seed-derived "
               "PYTHONHASHSEED and seed-derived prehistory). distinct_nontrivial = jobs for which >=2 distinct "
               "set-iteration orders of the job's name set were observed across nodes and whose graph contains a "
               "loop or a branch",
}

# rare-condition probes with a floor (DESIGN 7.3): a probe stuck at zero is
# printed as BLIND-PROBE and listed in evidence; it never changes an exit code
PROBES = {
    "cosim": ["stat:c06_branch_events", "stat:schedules_ended", "loop_multi_header", "loop_multi_exit",
              "loop_multi_latch"],
    "histsim": ["edit:pred=region", "edit:pred=branching", "edit:arcs-into-S>=2", "edit:pred=has-backedge",
                "edit:S=empty", "restart@stage2", "restart@stage3", "name-on-depth>=2", "stat:probes"],
    "envsim": ["stat:fault_raise-at-call", "stat:fault_raise-at-next", "stat:fault_raise-at-iter",
               "stat:fault_raise-at-getattr", "stat:fault_raise-at-getitem", "stat:fault_empty-iterable",
               "stat:fault_early-exhaustion", "stat:fault_budget"],
}

COMPONENTS = {
    "real": ["numba_scfg (all modules, imported from the working tree, no hooks)", "PyYAML",
             "CPython compiler / ast / dis", "CPython executing original and regenerated functions"],
    "harness_semantics": ["W0/W1/W2 graph walkers", "block-by-block CFG interpreter", "reference models M-arcs/M-names/M-canon"],
    "fakes": ["Env object handed to executed functions (external callables, iterables, attribute/subscript targets)"],
    "not_used": ["graphviz viewer", "numba_scfg.tests.simulator"],
}


def _engine(name):
    import importlib
    return importlib.import_module("sim." + name)


def _plan(prop, tier, seed):
    cfg = PROPS[prop]
    nb, bs = cfg[tier]
    if os.environ.get("VERIF_BATCHES"):
        nb = int(os.environ["VERIF_BATCHES"])
    return cfg["engine"], nb, bs, dict(cfg["params"])


class Harness(Exception):
    pass


# known-finding id + matched signature -> number of violating runs (evidence)
KNOWN_SEEN = collections.Counter()


def _run_engine(prop, engine, tier, seed, nb, bs, params):
    eng = _engine(engine)
    specs = fleet.plan_batches(engine, tier, seed, nb, bs, params)
    results = fleet.run_nodes(specs)
    bad = [r for r in results if not r.get("ok")]
    if bad:
        raise Harness("%d of %d nodes failed: %s\n%s" % (
            len(bad), len(results), bad[0].get("error"),
            (bad[0].get("traceback") or bad[0].get("stderr") or "")[-1500:]))
    rows = []
    for spec, r in zip(specs, results):
        for row in r["runs"]:
            row["_hash_seed"] = spec["hash_seed"]
            row["_batch"] = spec["batch"]
            rows.append(row)
    viol_rows = []
    any_prop = os.environ.get("VERIF_ANY") == "1"  # mutation scan: one engine run, every property it can see
    for row in rows:
        for v in row.get("violations", []):
            if v["property"] == prop or any_prop:
                viol_rows.append((row, v))
    return eng, rows, viol_rows


def run_runs_engine(prop, tier, seed, t0):
    engine, nb, bs, params = _plan(prop, tier, seed)
    eng, rows, viol_rows = _run_engine(prop, engine, tier, seed, nb, bs, params)
    cov = aggregate(prop, engine, rows)
    parts = [(engine, eng, viol_rows)]
    also = PROPS[prop].get("also")
    if also:
        e2, p2, plan2 = also
        nb2, bs2 = plan2[tier]
        if os.environ.get("VERIF_BATCHES"):
            nb2 = max(1, int(os.environ["VERIF_BATCHES"]) // 5)
        eng2, rows2, viol2 = _run_engine(prop, e2, tier, seed, nb2, bs2, p2)
        cov2 = aggregate(prop, e2, rows2)
        cov["secondary_engine"] = {"engine": e2, "params": p2, "evaluations": cov2["evaluations"],
                                   "distinct_nontrivial": cov2["distinct_nontrivial"],
                                   "logical_time": cov2["logical_time"], "inconclusive": cov2["inconclusive"],
                                   "distinct_states": cov2["distinct_states"], "rule": RULES[e2]}
        cov["evaluations"] += cov2["evaluations"]
        cov["distinct_nontrivial"] += cov2["distinct_nontrivial"]
        cov["timeouts"] += cov2["timeouts"]
        parts.append((e2, eng2, viol2))
    return engine, eng, rows, cov, parts


def aggregate(prop, engine, rows):
    stats = collections.Counter()
    inconc = collections.Counter()
    reach = collections.defaultdict(collections.Counter)
    digests = set()
    nontriv = set()
    states = set()
    samples = []
    other = collections.Counter()
    timeouts = 0
    for row in rows:
        for k, v in (row.get("stats") or {}).items():
            if isinstance(v, (int, float)):
                stats[k] += v
        if row.get("inconclusive"):
            inconc[row["inconclusive"]] += 1
            if row["inconclusive"] == "TIMEOUT":
                timeouts += 1
        for k, v in (row.get("reach") or {}).items():
            reach[k][str(v)] += 1
        for s in row.get("states") or []:
            states.add(s)
        cd = row.get("case_digest")
        if cd:
            digests.add(cd)
            if row.get("nontrivial"):
                nontriv.add(cd)
        for v in row.get("violations", []):
            if v["property"] != prop:
                other[v["signature"]] += 1
        if "case" in row and len(samples) < 3 and not row.get("violations"):
            samples.append({"seed": row["seed"], "case": _trim(row["case"]),
                            "log_digest": row.get("log_digest")})
    faults = {k: int(v) for k, v in sorted(stats.items())
              if k.startswith("fault_") or k in ("restarts_fired", "restart_dict", "restart_yaml", "restart2",
                                                 "restart_failed")}
    blind = []
    for probe in PROBES.get(engine, []):
        if probe.startswith("stat:"):
            hit = stats.get(probe[5:], 0)
        else:
            hit = sum(reach.get(probe, {}).values())
        if not hit:
            blind.append(probe)
    cov = {
        "evaluations": len(rows),
        "faults_fired": faults,
        "blind_probes": blind,
        "distinct_nontrivial": len(nontriv),
        "distinct_cases": len(digests),
        "rule": RULES[engine],
        "samples": samples,
        "logical_time": {k: int(v) for k, v in sorted(stats.items())},
        "distinct_states": len(states),
        "inconclusive": dict(sorted(inconc.items())),
        "reach": {k: dict(sorted(v.items(), key=lambda kv: (-kv[1], kv[0]))[:12]) for k, v in sorted(reach.items())},
        "violations_of_other_properties_seen": dict(sorted(other.items())),
        "timeouts": timeouts,
        "components": COMPONENTS,
    }
    return cov


def _trim(case, limit=4000):
    s = json.dumps(case)
    if len(s) <= limit:
        return case
    return {"trimmed": s[:limit] + "..."}


def triage(prop, engine, eng, viol_rows, seed, tier, minimise=True, tag=""):
    """Group violations, match known findings, minimise the rest, write replays.
    Returns (lines, n_new, n_known, replay_paths)."""
    known = findings.load()
    lines = []
    n_new = 0
    n_known = 0
    printed_known = set()
    paths = []
    groups = collections.OrderedDict()  # unknown violations, grouped by signature
    for row, v in sorted(viol_rows, key=lambda rv: rv[0]["seed"]):
        facts = eng.where_facts(row.get("case"), v) if hasattr(eng, "where_facts") else {}
        e = findings.match(v["property"], v["signature"], facts, known)
        if e is not None:
            n_known += 1
            ktag = e.get("id") or e.get("signature")
            KNOWN_SEEN[ktag + " <- " + v["signature"]] += 1
            if ktag not in printed_known:
                printed_known.add(ktag)
                lines.append("KNOWN-FINDING: property=%s %s [id=%s, e.g. signature=%s, first seed=%d]" % (
                    prop, e.get("what", ""), ktag, v["signature"], row["seed"]))
            continue
        key = v["signature"]
        if key not in groups:
            groups[key] = {"row": row, "v": v, "facts": facts, "count": 0}
        groups[key]["count"] += 1
    new_groups = list(groups.values())
    os.makedirs(REPLAY_DIR, exist_ok=True)
    maxg = int(os.environ.get("VERIF_MAX_GROUPS", "6"))
    mspecs = [{"mode": "minimise", "engine": engine, "case": gr["row"]["case"],
               "signature": gr["v"]["signature"], "hash_seed": gr["row"]["_hash_seed"],
               "budget_s": int(os.environ.get("VERIF_MINIMISE_S", "60")),
               "avoid_known": [e for e in known if e.get("property") == prop]} for gr in new_groups[:maxg]]
    mouts = fleet.run_nodes(mspecs, timeout=400) if (minimise and mspecs) else []
    for n, gr in enumerate(new_groups[:maxg]):
        row, v = gr["row"], gr["v"]
        case = row["case"]
        hs = row["_hash_seed"]
        mres = None
        if minimise:
            out = mouts[n]
            if out.get("ok") and out.get("reproduced"):
                mres = out
        rcase = mres["case"] if mres else case
        rviol = mres["violation"] if mres else v
        # verify the (minimised) file in a fresh node
        chk = fleet.spawn_node({"mode": "replay", "engine": engine, "case": rcase, "hash_seed": hs}, timeout=300)
        reproduced = False
        logd = None
        if chk.get("ok"):
            logd = chk["result"].get("log_digest")
            reproduced = any(x["signature"] == v["signature"] for x in chk["result"]["violations"])
        if not reproduced and mres is not None:
            # fall back to the unminimised case
            rcase, rviol = case, v
            chk = fleet.spawn_node({"mode": "replay", "engine": engine, "case": rcase, "hash_seed": hs}, timeout=300)
            if chk.get("ok"):
                logd = chk["result"].get("log_digest")
                reproduced = any(x["signature"] == v["signature"] for x in chk["result"]["violations"])
        # a minimised case may have turned into a known finding's shape: re-match
        facts2 = eng.where_facts(rcase, rviol) if hasattr(eng, "where_facts") else {}
        path = os.path.join(REPLAY_DIR, "%s-%d-%s%d.json" % (prop, seed, tag, n))
        doc = {"property": prop, "engine": engine, "verif_seed": seed, "tier": tier,
               "run_seed": row["seed"], "hash_seed": hs, "case": rcase,
               "violation": {k: rviol.get(k) for k in ("signature", "class", "where", "detail", "stage",
                                                       "step", "decisions", "schedule_index") if k in rviol},
               "facts": facts2, "occurrences_in_this_check": gr["count"],
               "minimised": bool(mres), "shrink_tried": mres["tried"] if mres else 0,
               "shrink_kept": mres["kept"] if mres else 0, "log_digest": logd,
               "reproduced_in_fresh_node": reproduced}
        with open(path, "w") as f:
            json.dump(doc, f, indent=1)
        paths.append(path)
        if not reproduced:
            lines.append("HARNESS-ERROR: violation %s of run %d did not reproduce in a fresh node (replay=%s)" % (
                v["signature"], row["seed"], path))
            n_new += gr["count"]
            lines.append("VIOLATION property=%s replay=%s" % (prop, path))
            continue
        n_new += gr["count"]
        lines.append("VIOLATION property=%s replay=%s" % (prop, path))
        lines.append("  signature=%s where=%s detail=%s" % (rviol["signature"], rviol.get("where"), (rviol.get("detail") or "")[:300]))
    if len(new_groups) > maxg:
        for gr in new_groups[maxg:]:
            n_new += gr["count"]
        lines.append("(+%d further distinct violation groups not minimised: %s)" % (
            len(new_groups) - maxg, ", ".join(g["v"]["signature"] for g in new_groups[maxg:maxg + 8])))
    return lines, n_new, n_known, paths


def write_evidence(prop, tier, seed, cov, wall, nviol, assumptions):
    os.makedirs(EVID_DIR, exist_ok=True)
    doc = {"property_id": prop, "tier": tier, "seed": seed, "level": "exploration",
           "coverage": cov, "assumptions": assumptions, "wall_s": round(wall, 2),
           "violations": nviol}
    path = os.path.join(EVID_DIR, "%s.json" % prop)
    tmp = path + ".tmp"
    with open(tmp, "w") as f:
        json.dump(doc, f, indent=1, sort_keys=True)
    os.replace(tmp, path)
    return path


ASSUME = {
    "cosim": ["decision schedules are sampled (seeded, coverage-guided), not enumerated; reach.product_closed counts the runs in "
              "which, at every stage prefix, no discovered (original block, control-variable valuation) state was left with an "
              "untaken decision, i.e. the sampled walks happened to cover the whole reachable product",
              "graph sizes bounded (quick n<=12, thorough n<=24); at most two ordered distinct successors per input block",
              "walker semantics W1/W2 are the harness's reading of the property statement (DESIGN 4.3)",
              "runs whose pipeline raises are counted as STAGE-RAISED and are inconclusive (C02 not claimed)"],
    "histsim": ["histories are sampled, bounded (<=40 ops)", "restart = to_dict/to_yaml then from_dict/from_yaml; no blob corruption injected",
                "reference models follow DESIGN section 5 sentence by sentence"],
    "envsim": ["programs come from the P-gen grammar (DESIGN 3.2) plus the test-suite corpus",
               "environment responses are a function of (seed, interaction index) only",
               "CPython executing the original function is the reference model"],
    "hashsim": ["only string-hash randomisation and process prehistory are varied (the only nondeterminism in the library)",
                "Python 3.12 only"],
}


def main_check(prop, tier, seed):
    t0 = time.time()
    cfg = PROPS[prop]
    engine = cfg["engine"]
    try:
        if engine == "hashsim":
            from sim import hashsim
            cov, lines, n_new, n_known = hashsim.check(prop, tier, seed)
        else:
            engine, eng, rows, cov, parts = run_runs_engine(prop, tier, seed, t0)
            lines, n_new, n_known = [], 0, 0
            for k, (e_name, e_mod, viol_rows) in enumerate(parts):
                l2, nn, nk, _paths = triage(prop, e_name, e_mod, viol_rows, seed, tier, tag=("" if k == 0 else "b"))
                lines += l2
                n_new += nn
                n_known += nk
            cov["violating_runs_known"] = n_known
            cov["known_findings_matched"] = dict(sorted(KNOWN_SEEN.items()))
            cov["violating_runs_new"] = n_new
    except Harness as h:
        print("HARNESS-ERROR: %s" % h)
        return 2
    wall = time.time() - t0
    runs_per_hour = int(cov["evaluations"] / wall * 3600) if wall > 0 else 0
    cov["runs_per_hour"] = runs_per_hour
    cov["seeds_per_hour"] = runs_per_hour
    cov["workers"] = int(os.environ.get("VERIF_WORKERS", "16"))
    write_evidence(prop, tier, seed, cov, wall, n_new, ASSUME[engine])
    for ln in lines:
        print(ln)
    for bp in cov.get("blind_probes", []):
        print("BLIND-PROBE %s (never hit in this run)" % bp)
    tm = cov.get("timeouts", 0)
    print("%s tier=%s seed=%d runs=%d nontrivial=%d states=%d known=%d new=%d wall=%.1fs" % (
        prop, tier, seed, cov["evaluations"], cov["distinct_nontrivial"],
        cov.get("distinct_states", 0), n_known, n_new, wall))
    if n_new:
        return 1
    if cov["evaluations"] and tm > 0.02 * cov["evaluations"]:
        print("HARNESS-ERROR: %d of %d runs timed out" % (tm, cov["evaluations"]))
        return 2
    return 0


def main_replay(prop, path):
    with open(path) as f:
        doc = json.load(f)
    engine = doc["engine"]
    if engine == "hashsim":
        from sim import hashsim
        return hashsim.replay(prop, doc, path)
    out = fleet.spawn_node({"mode": "replay", "engine": engine, "case": doc["case"],
                            "hash_seed": doc["hash_seed"], "keep_log": False}, timeout=300)
    if not out.get("ok"):
        print("HARNESS-ERROR: %s\n%s" % (out.get("error"), out.get("traceback", "")))
        return 2
    sig = doc["violation"]["signature"]
    res = out["result"]
    hit = [v for v in res["violations"] if v["signature"] == sig]
    same_log = (doc.get("log_digest") is None) or (res.get("log_digest") == doc.get("log_digest"))
    if hit:
        print("VIOLATION property=%s replay=%s" % (doc["property"], path))
        print("  signature=%s where=%s log_digest=%s (%s) detail=%s" % (
            sig, hit[0].get("where"), res.get("log_digest"),
            "identical to recorded" if same_log else "DIFFERS from recorded %s" % doc.get("log_digest"),
            (hit[0].get("detail") or "")[:300]))
        return 1
    print("NOT-REPRODUCED property=%s replay=%s (violations now: %s)" % (
        doc["property"], path, [v["signature"] for v in res["violations"]]))
    return 0
