"""Self-tests of the machinery (DESIGN 8.1, 8.2).

selftest-determinism: the same run seeds executed (i) twice in separate nodes,
(ii) alone and inside a batch, in forward and reversed batch order, (iii) with 1
and 16 fleet workers, (iv) under a second hash seed.  Log digests must be
identical in (i)-(iii) (else: harness bug, exit 2); a difference in (iv) only is
attributed to the library and reported under C12.

selftest-sensitivity: every patch under /verif/mutants and /verif/seeded is
applied to a scratch copy of /repo; the repository's own suite must still pass
there and the property's quick check, pointed at the copy, must exit 1.
"""
import glob
import json
import os
import shutil
import subprocess
import sys
import time

from sim import fleet

VERIF_DIR = fleet.VERIF_DIR
OUT_DIR = os.path.join(VERIF_DIR, "selftest")
SCRATCH = os.environ.get("VERIF_SCRATCH", "/var/tmp/verif-scratch")

ENGINES = [
    ("cosim", {}),
    ("histsim", {"focus": "C04"}),
    ("histsim", {"focus": "C14"}),
    ("histsim", {"focus": "C15"}),
    ("histsim", {"focus": "C18"}),
    ("envsim", {"focus": "C07", "nsched": 12}),
]


def _spec(engine, params, tier, seed, seeds, hash_seed, label):
    return {"mode": "batch", "engine": engine, "tier": tier, "verif_seed": seed, "batch": label,
            "run_seeds": list(seeds), "hash_seed": hash_seed, "params": params, "samples": 0}


def _digests(results):
    out = {}
    for r in results:
        if not r.get("ok"):
            raise RuntimeError("node failed: %s\n%s" % (r.get("error"), r.get("traceback") or r.get("stderr")))
        for row in r["runs"]:
            out[row["seed"]] = (row.get("log_digest"), row.get("inconclusive"),
                                tuple(sorted(v["signature"] for v in row.get("violations", []))))
    return out


def determinism(tier, seed):
    n = 200 if tier == "quick" else 1000
    bs = 25
    h1 = fleet.hash_seed_for(seed, "selftest/h1")
    h2 = fleet.hash_seed_for(seed, "selftest/h2")
    report = {"seed": seed, "tier": tier, "hash_seeds": [h1, h2], "engines": []}
    harness_bug = False
    c12 = []
    t0 = time.time()
    for engine, params in ENGINES:
        seeds = list(range(n))
        batches = [seeds[i:i + bs] for i in range(0, n, bs)]
        mk = lambda bl, hs, tag: [_spec(engine, params, "quick", seed, b, hs, "%s%d" % (tag, i)) for i, b in enumerate(bl)]
        a = _digests(fleet.run_nodes(mk(batches, h1, "a"), workers=16))
        b = _digests(fleet.run_nodes(mk(batches, h1, "b"), workers=16))            # (i) twice
        rev = [list(reversed(x)) for x in batches]
        c = _digests(fleet.run_nodes(mk(rev, h1, "c"), workers=16))                # (ii) other batch order
        alone = [[s] for s in seeds[:16]]
        d = _digests(fleet.run_nodes(mk(alone, h1, "d"), workers=16))              # (ii) alone
        e = _digests(fleet.run_nodes(mk(batches[:2], h1, "e"), workers=1))         # (iii) one worker
        f = _digests(fleet.run_nodes(mk(batches, h2, "f"), workers=16))            # (iv) second hash seed
        z = _digests(fleet.run_nodes(mk(batches[:2], 0, "z"), workers=16))         # hash randomisation off
        rec = {"engine": engine, "params": params, "runs": n, "mismatch": {}}
        for tag, other in (("twice", b), ("reversed-batch", c), ("alone", d), ("one-worker", e)):
            bad = [s for s in other if other[s] != a[s]]
            rec["mismatch"][tag] = bad[:10]
            if bad:
                harness_bug = True
        for tag, other in (("second-hash-seed", f), ("hash-seed-0", z)):
            bad = [s for s in other if other[s] != a[s]]
            rec["mismatch"][tag] = bad[:10]
            if bad:
                c12.append((engine, params, tag, bad[:5]))
        rec["distinct_log_digests"] = len(set(v[0] for v in a.values()))
        report["engines"].append(rec)
        print("determinism %-8s %-18s runs=%d distinct-logs=%d mismatches=%s" % (
            engine, json.dumps(params), n, rec["distinct_log_digests"],
            {k: len(v) for k, v in rec["mismatch"].items()}))
    report["wall_s"] = round(time.time() - t0, 1)
    os.makedirs(OUT_DIR, exist_ok=True)
    with open(os.path.join(OUT_DIR, "determinism.json"), "w") as fh:
        json.dump(report, fh, indent=1)
    if harness_bug:
        print("HARNESS-ERROR: log digests differ between repeated / regrouped executions of the same seeds")
        return 2
    if c12:
        for engine, params, tag, bad in c12:
            print("C12-SUSPECT: engine=%s %s: runs %s differ under %s (library result depends on the hash seed)" % (
                engine, params, bad, tag))
        return 1
    print("determinism ok (%.0fs)" % (time.time() - t0))
    return 0


# ---------------------------------------------------------------- sensitivity

def _patches():
    out = []
    for p in sorted(glob.glob(os.path.join(VERIF_DIR, "mutants", "*.patch"))):
        base = os.path.basename(p)
        out.append({"id": base[:-6], "property": base.split("-")[0], "patch": p, "kind": "own"})
    for meta in sorted(glob.glob(os.path.join(VERIF_DIR, "seeded", "*", "meta.json"))):
        with open(meta) as f:
            m = json.load(f)
        d = os.path.dirname(meta)
        if m.get("out_of_domain"):
            continue  # recorded, but outside the input domain (DESIGN 9): not expected to be detected
        out.append({"id": os.path.basename(d), "property": m["property"], "patch": os.path.join(d, "patch.diff"),
                    "kind": "seeded", "run_checks": m.get("run_checks") or [m["property"]]})
    return out


def sensitivity(tier, seed, only=None):
    os.makedirs(SCRATCH, exist_ok=True)
    results = []
    t00 = time.time()
    run_suite = os.environ.get("VERIF_SENS_SUITE", "1") == "1"
    todo = [m for m in _patches() if not (only and only not in m["id"])]
    par = int(os.environ.get("VERIF_SENS_PAR", "1"))
    if par > 1:
        # several patches at a time (each check still uses the whole fleet; the serial
        # phases of one overlap with the parallel phases of another)
        from concurrent.futures import ThreadPoolExecutor
        with ThreadPoolExecutor(max_workers=par) as ex:
            results = list(ex.map(lambda m_: _sens_one(m_, tier, seed, run_suite), todo))
        todo = []
    for m in todo:
        results.append(_sens_one(m, tier, seed, run_suite))
    return _sens_finish(results, only, seed, tier, t00)


def _sens_one(m, tier, seed, run_suite):
    results = []  # (kept for the early-return paths below)
    if True:
        work = os.path.join(SCRATCH, "sens-%d-%s" % (os.getpid(), m["id"]))
        shutil.rmtree(work, ignore_errors=True)
        rec = dict(m)
        try:
            subprocess.run(["git", "-C", "/repo", "worktree", "prune"], capture_output=True)
            shutil.copytree("/repo", work, ignore=shutil.ignore_patterns(".git", "__pycache__", "*.egg-info", "docs"))
            ap = subprocess.run(["patch", "-p1", "-s", "-d", work, "-i", m["patch"]], capture_output=True, text=True)
            if ap.returncode != 0:
                rec["status"] = "patch-does-not-apply"
                rec["detail"] = (ap.stdout + ap.stderr)[-300:]
                results.append(rec)
                print("sensitivity %-40s %s" % (m["id"], rec["status"]))
                return rec
            if run_suite:
                try:
                    t = subprocess.run(["/venv/bin/python", "-m", "pytest", "-q", "-x", "-p", "no:cacheprovider",
                                        "--timeout=120", "numba_scfg"],
                                       cwd=work, capture_output=True, text=True, timeout=300,
                                       env=dict(os.environ, PYTHONPATH=work, PYTHONDONTWRITEBYTECODE="1"))
                    rec["suite_passes"] = t.returncode == 0
                except subprocess.TimeoutExpired:
                    rec["suite_passes"] = False
                    rec["suite_note"] = "suite hangs with this change"
                if not rec["suite_passes"]:
                    # the repository's own suite already kills it: uninteresting
                    rec["status"] = "killed-by-suite"
                    results.append(rec)
                    print("sensitivity %-40s killed-by-suite (not counted)" % m["id"])
                    return rec
            env = dict(os.environ, VERIF_REPO=work, VERIF_EVIDENCE_DIR=os.path.join(work, "_evidence"),
                       VERIF_REPLAY_DIR=os.path.join(work, "_replays"), VERIF_SEED=str(seed),
                       VERIF_MINIMISE_S="15", VERIF_MAX_GROUPS="2")
            t0 = time.time()
            rec["checks"] = {}
            rec["status"] = "survived"
            for prop_ in m.get("run_checks") or [m["property"]]:
                try:
                    c = subprocess.run([os.path.join(VERIF_DIR, "check"), prop_, "--tier", tier],
                                       capture_output=True, text=True, env=env, cwd=VERIF_DIR, timeout=1500)
                except subprocess.TimeoutExpired:
                    rec["checks"][prop_] = "timeout"
                    continue
                rec["checks"][prop_] = c.returncode
                if c.returncode == 1 and rec["status"] != "killed":
                    rec["status"] = "killed"
                    rec["killed_by"] = prop_
                    viol = [ln for ln in c.stdout.splitlines() if ln.startswith("VIOLATION") or ln.startswith("  signature")]
                    rec["first_violation"] = viol[:2]
                elif c.returncode == 2:
                    rec["status"] = "harness-error" if rec["status"] != "killed" else rec["status"]
                    rec["detail"] = c.stdout[-600:]
            rec["check_exit"] = rec["checks"].get(m["property"])
            rec["seconds"] = round(time.time() - t0, 1)
        finally:
            shutil.rmtree(work, ignore_errors=True)
        print("sensitivity %-40s %-9s suite_passes=%s exit=%s %ss %s" % (
            m["id"], rec.get("status"), rec.get("suite_passes"), rec.get("check_exit"), rec.get("seconds"),
            (rec.get("first_violation") or [""])[-1][:140]), flush=True)
        return rec


def _sens_finish(results, only, seed, tier, t00):
    os.makedirs(OUT_DIR, exist_ok=True)
    if not only:
        with open(os.path.join(OUT_DIR, "sensitivity.json"), "w") as fh:
            json.dump({"seed": seed, "tier": tier, "wall_s": round(time.time() - t00, 1), "results": results}, fh, indent=1)
    counted = [r for r in results if r.get("status") != "killed-by-suite"]
    killed = sum(1 for r in counted if r.get("status") == "killed")
    print("sensitivity: %d of %d killed (%d more are killed by the repository's own suite)" % (
        killed, len(counted), len(results) - len(counted)))
    return 0 if killed == len(counted) else 1


# ---------------------------------------------------------------- benign variants (false-alarm resistance)

def benign(tier, seed, only=None):
    """Every patch under /verif/benign is a change that alters the implementation
    (orders, names of temporaries, formatting, work-list discipline) but preserves
    every claimed property.  Each is applied to a scratch copy of /repo; the suite
    must still pass there and EVERY claimed check, pointed at the copy, must stay
    silent (exit 0).  An exit 1 here is a false alarm of the machinery."""
    from sim import driver
    os.makedirs(SCRATCH, exist_ok=True)
    results = []
    t00 = time.time()
    alarms = 0
    props = sorted(driver.PROPS)
    if os.environ.get("VERIF_BENIGN_CHECKS"):
        props = os.environ["VERIF_BENIGN_CHECKS"].split(",")
        only = only or ""
    for p in sorted(glob.glob(os.path.join(VERIF_DIR, "benign", "*.patch"))):
        bid = os.path.basename(p)[:-6]
        if only and only not in bid:
            continue
        work = os.path.join(SCRATCH, "benign-%d-%s" % (os.getpid(), bid))
        shutil.rmtree(work, ignore_errors=True)
        rec = {"id": bid, "checks": {}}
        try:
            shutil.copytree("/repo", work, ignore=shutil.ignore_patterns(".git", "__pycache__", "*.egg-info", "docs"))
            ap = subprocess.run(["patch", "-p1", "-s", "-d", work, "-i", p], capture_output=True, text=True)
            if ap.returncode != 0:
                rec["status"] = "patch-does-not-apply"
                results.append(rec)
                print("benign %-40s patch-does-not-apply" % bid)
                alarms += 1
                continue
            t = subprocess.run(["/venv/bin/python", "-m", "pytest", "-q", "-x", "-p", "no:cacheprovider",
                                "--timeout=120", "numba_scfg"], cwd=work, capture_output=True, text=True, timeout=600,
                               env=dict(os.environ, PYTHONPATH=work, PYTHONDONTWRITEBYTECODE="1"))
            rec["suite_passes"] = t.returncode == 0
            env = dict(os.environ, VERIF_REPO=work, VERIF_EVIDENCE_DIR=os.path.join(work, "_evidence"),
                       VERIF_REPLAY_DIR=os.path.join(work, "_replays"), VERIF_SEED=str(seed),
                       VERIF_MINIMISE_S="15", VERIF_MAX_GROUPS="2")
            t0 = time.time()
            for prop_ in props:
                try:
                    c = subprocess.run([os.path.join(VERIF_DIR, "check"), prop_, "--tier", tier],
                                       capture_output=True, text=True, env=env, cwd=VERIF_DIR, timeout=2400)
                    rec["checks"][prop_] = c.returncode
                    if c.returncode != 0:
                        rec.setdefault("output", {})[prop_] = [ln for ln in c.stdout.splitlines()
                                                               if ln.startswith(("VIOLATION", "  signature", "HARNESS"))][:6]
                        # keep the replay files of a false alarm for analysis
                        keep = os.path.join(OUT_DIR, "benign-alarms", bid)
                        os.makedirs(keep, exist_ok=True)
                        for f in glob.glob(os.path.join(work, "_replays", "%s-*.json" % prop_)):
                            shutil.copy(f, keep)
                except subprocess.TimeoutExpired:
                    rec["checks"][prop_] = "timeout"
            rec["seconds"] = round(time.time() - t0, 1)
            bad = [k for k, v in rec["checks"].items() if v != 0]
            rec["status"] = "silent" if not bad and rec["suite_passes"] else "ALARM:" + ",".join(bad)
            if bad or not rec["suite_passes"]:
                alarms += 1
        finally:
            shutil.rmtree(work, ignore_errors=True)
        results.append(rec)
        print("benign %-40s %-18s suite_passes=%s %ss %s" % (bid, rec["status"], rec.get("suite_passes"),
                                                             rec.get("seconds"), json.dumps(rec.get("output", ""))[:300]))
    os.makedirs(OUT_DIR, exist_ok=True)
    if not only and not os.environ.get("VERIF_BENIGN_CHECKS"):
        with open(os.path.join(OUT_DIR, "benign.json"), "w") as fh:
            json.dump({"seed": seed, "tier": tier, "wall_s": round(time.time() - t00, 1), "results": results}, fh, indent=1)
    print("benign: %d of %d variants left every check silent" % (len(results) - alarms, len(results)))
    return 0 if not alarms else 1


def known_findings_examples(tier, seed):
    """Replay the example of every known finding: each must still violate its
    property with a signature the entry matches (otherwise the entry is stale)."""
    import fnmatch
    from sim import findings, driver
    stale = 0
    for e in findings.load():
        ex = e.get("example")
        if not ex:
            print("known-finding %-34s no example" % e.get("id"))
            continue
        engine = driver.PROPS[e["property"]]["engine"]
        if engine == "envsim":
            case = {"engine": "envsim", "source": ex["source"], "schedules": ex.get("schedules"),
                    "nsched": 40, "env_seed": 1, "focus": e["property"]}
            if not ex.get("schedules"):
                case.pop("schedules")
        elif engine == "histsim":
            case = {"engine": "histsim", "workload": ex["workload"], "history": ex["history"],
                    "conf": {"focus": e["property"], "faults": True, "style": "frontend",
                             "enabled": {"restart-dict": True, "restart-yaml": True, "restart2": True},
                             "weights": {}, "nops": len(ex["history"])}}
        else:
            print("known-finding %-34s engine %s: no replay form" % (e.get("id"), engine))
            continue
        out = fleet.spawn_node({"mode": "replay", "engine": engine, "case": case, "hash_seed": 0}, timeout=300)
        if not out.get("ok"):
            print("known-finding %-34s HARNESS-ERROR %s" % (e.get("id"), out.get("error")))
            stale += 1
            continue
        eng = driver._engine(engine)
        hit = None
        for v in out["result"]["violations"]:
            if v["property"] == e["property"] and fnmatch.fnmatchcase(v["signature"], e["signature"]):
                facts = eng.where_facts(case, v)
                if all(findings._fact_ok(val, facts.get(k)) for k, val in (e.get("where") or {}).items()):
                    hit = v
                    break
        print("known-finding %-34s %s %s" % (e.get("id"), "still reproduces:" if hit else "DOES NOT REPRODUCE",
                                             hit["signature"] if hit else [v["signature"] for v in out["result"]["violations"]]))
        if not hit:
            stale += 1
    return 1 if stale else 0


def main(what, tier, seed):
    if what == "selftest-findings":
        return known_findings_examples(tier, seed)
    if what == "selftest-determinism":
        return determinism(tier, seed)
    if what.startswith("selftest-benign"):
        only = what.split(":", 1)[1] if ":" in what else None
        return benign(tier, seed, only)
    if what.startswith("selftest-sensitivity"):
        only = what.split(":", 1)[1] if ":" in what else None
        return sensitivity(tier, seed, only)
    print("unknown selftest", what)
    return 2
