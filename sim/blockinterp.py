"""The block-by-block interpreter that C08's statement defines (DESIGN 4.4, B):
run the block's statements in one shared namespace; with two successors
evaluate its last expression and take the first successor if it is truthy,
else the second; stop at a return."""
import ast

from numba_scfg.core.datastructures.basic_block import PythonASTBlock


class BlockBudget(Exception):
    pass


class InterpError(Exception):
    """The graph cannot be interpreted as the statement prescribes."""


class CompiledBlock:
    __slots__ = ("name", "stmts", "test", "ret", "targets")

    def __init__(self, name, block):
        self.name = name
        self.targets = tuple(block._jump_targets)
        tree = list(block.tree)
        self.test = None
        self.ret = None
        self.stmts = []
        if len(self.targets) == 2:
            if not tree:
                raise InterpError("block %s has two successors and no expression" % name)
            last = tree.pop()
            if isinstance(last, ast.Expr):
                last = last.value
            if not isinstance(last, ast.expr):
                raise InterpError("block %s: last element %s is not an expression" % (name, type(last).__name__))
            e = ast.Expression(body=last)
            ast.fix_missing_locations(e)
            self.test = compile(e, "<block %s test>" % name, "eval")
        elif len(self.targets) > 2:
            raise InterpError("block %s has %d successors" % (name, len(self.targets)))
        for node in tree:
            if isinstance(node, ast.Return):
                val = node.value if node.value is not None else ast.Constant(None)
                e = ast.Expression(body=val)
                ast.fix_missing_locations(e)
                self.ret = compile(e, "<block %s return>" % name, "eval")
                break  # nothing after a return runs
            if isinstance(node, (ast.Pass, ast.Break, ast.Continue)):
                continue  # only present with prune=False; control flow is in the arcs
            if isinstance(node, ast.expr):
                node = ast.Expr(value=node)
            m = ast.Module(body=[node], type_ignores=[])
            ast.fix_missing_locations(m)
            self.stmts.append(compile(m, "<block %s>" % name, "exec"))


def compile_graph(scfg):
    blocks = {}
    for name, b in scfg.graph.items():
        if not isinstance(b, PythonASTBlock):
            raise InterpError("block %s is %s" % (name, type(b).__name__))
        blocks[name] = CompiledBlock(name, b)
    return blocks


def run(blocks, entry, ns, budget):
    """Execute from block `entry`.  Returns the returned value."""
    cur = entry
    steps = 0
    while True:
        steps += 1
        if steps > budget:
            raise BlockBudget()
        blk = blocks.get(cur)
        if blk is None:
            raise InterpError("jump to missing block %s" % cur)
        for code in blk.stmts:
            exec(code, ns)
        if blk.ret is not None:
            return eval(blk.ret, ns)
        if blk.test is not None:
            cur = blk.targets[0] if eval(blk.test, ns) else blk.targets[1]
        elif len(blk.targets) == 1:
            cur = blk.targets[0]
        else:
            raise InterpError("block %s ends without return or successor" % cur)
