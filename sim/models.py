"""Reference models of HISTSIM (DESIGN 4.2): M-arcs (C14) and M-names (C18).
M-canon (C15) lives in sim.hier."""
from numba_scfg.core.datastructures.basic_block import (
    SyntheticAssignment, SyntheticBranch, SyntheticHead, SyntheticReturn,
    SyntheticExit, SyntheticTail, SyntheticFill, RegionBlock)

from sim import hier
from sim.log import jdigest

BTYPES = {"exit": SyntheticExit, "tail": SyntheticTail, "return": SyntheticReturn,
          "fill": SyntheticFill}


def is_region(b):
    return isinstance(b, RegionBlock)


# ---------------------------------------------------------------- snapshots

def snap_block(b):
    rec = {"type": type(b).__name__, "targets": tuple(b._jump_targets),
           "backedges": tuple(b.backedges), "payload": jdigest(hier.payload_of(b))}
    if isinstance(b, SyntheticBranch):
        rec["var"] = b.variable
        rec["table"] = dict(b.branch_value_table)
    if isinstance(b, SyntheticAssignment):
        rec["assign"] = dict(b.variable_assignment)
    if is_region(b):
        rec["region"] = (b.kind, b.header, b.exiting)
        rec["inner"] = hier.canon_fields(b.subregion) if b.subregion is not None else {}
        rec["chain"] = exiting_chain(b)
    return rec


def exiting_chain(region):
    """Names of the blocks on the exiting chain of a region, outermost first."""
    out = []
    r = region
    while is_region(r) and r.subregion is not None and r.exiting in r.subregion.graph:
        x = r.subregion.graph[r.exiting]
        out.append(x.name)
        r = x
    return out


def snap_graph(G):
    return {name: snap_block(b) for name, b in G.graph.items()}


def shape_of(G, P, S):
    """Argument shape of an edit (for signatures and reach probes)."""
    tags = []
    multi = False
    for p in P:
        b = G.graph.get(p)
        if b is None:
            continue
        if is_region(b):
            tags.append("pred=region")
        elif isinstance(b, SyntheticBranch):
            tags.append("pred=branching")
        if b.backedges:
            tags.append("pred=has-backedge")
        fwd = [t for t in b._jump_targets if t not in b.backedges]
        if sum(1 for t in fwd if t in S) >= 2:
            multi = True
    if multi:
        tags.append("arcs-into-S>=2")
    if not S:
        tags.append("S=empty")
    if set(P) & set(S):
        tags.append("P&S")
    return sorted(set(tags))


# ---------------------------------------------------------------- rerouting rule

def check_rerouted(old_t, old_be, new_t, new_be, S, new):
    """Post-condition of insert_block for one predecessor-like block.
    Returns list of (class, detail)."""
    errs = []
    old_t, new_t = list(old_t), list(new_t)
    be_in_S = [t for t in old_be if t in S]
    if be_in_S:
        # The statement is silent on a declared back edge whose target is in S.
        # Accepted: (a) the back edge is left alone, or (b) it is rerouted
        # consistently (target and declaration both renamed to the new block).
        # Never accepted: a declaration that names something that is no longer
        # a successor.
        ren_t = [new if t in be_in_S else t for t in old_t]
        ren_be = tuple(new if t in be_in_S else t for t in old_be)
        if tuple(new_be) == ren_be and all(t in new_t for t in ren_be):
            old_t, old_be = ren_t, ren_be
    if tuple(new_be) != tuple(old_be):
        errs.append(("backedges-changed", "%s -> %s" % (list(old_be), list(new_be))))
    dropped = [t for t in old_be if t in old_t and t not in new_t]
    if dropped:
        errs.append(("backedge-target-dropped", "back-edge target(s) %s no longer among successors %s" % (dropped, new_t)))
    old_f = [t for t in old_t if t not in old_be]
    new_f = [t for t in new_t if t not in old_be]
    k = sum(1 for t in old_f if t in S)
    if not S:
        if new_f != old_f and new_f != old_f + [new]:
            errs.append(("arc-changed", "S empty: %s -> %s" % (old_f, new_f)))
    elif k == 0:
        if new_f != old_f:
            errs.append(("unrequested-arc-changed", "%s -> %s" % (old_f, new_f)))
    elif k == 1:
        exp = [new if t in S else t for t in old_f]
        if new_f != exp:
            if new not in new_f:
                errs.append(("arc-lost", "expected %s, got %s" % (exp, new_f)))
            elif sorted(new_f) == sorted(exp):
                errs.append(("successor-order-changed", "expected %s, got %s" % (exp, new_f)))
            else:
                errs.append(("arc-changed", "expected %s, got %s" % (exp, new_f)))
        elif not dropped:
            exp_full = [new if (t in S and t not in old_be) else t for t in old_t]
            if new_t != exp_full:
                errs.append(("successor-order-changed", "expected %s, got %s" % (exp_full, new_t)))
    else:
        if any(t in S for t in new_f):
            errs.append(("arc-not-rerouted", "targets in S remain: %s" % new_f))
        if new not in new_f:
            errs.append(("arc-lost", "new block missing from %s" % new_f))
        if [t for t in new_f if t != new] != [t for t in old_f if t not in S]:
            errs.append(("remaining-successors-changed", "%s -> %s" % (old_f, new_f)))
    return errs


def check_table(old_table, new_table, old_be, S, new):
    errs = []
    for key, tgt in old_table.items():
        if key not in new_table:
            errs.append(("table-key-lost", "key %r (was -> %s)" % (key, tgt)))
        elif tgt in S and tgt not in old_be:
            if new_table[key] != new:
                errs.append(("table-not-rerouted", "key %r -> %s, expected %s" % (key, new_table[key], new)))
        elif new_table[key] != tgt:
            errs.append(("table-entry-changed", "key %r: %s -> %s" % (key, tgt, new_table[key])))
    for key in new_table:
        if key not in old_table:
            errs.append(("table-key-added", repr(key)))
    return errs


def _same(pre_rec, b):
    """Is block b identical to its pre-snapshot?  Returns None or a field name."""
    post = snap_block(b)
    for k in ("type", "targets", "backedges", "payload", "var", "table", "assign", "region", "inner"):
        if pre_rec.get(k) != post.get(k):
            return k
    return None


def _check_chain(region_post, pre_rec, S, new, errs, tag):
    """The same rerouting must hold on every block of the exiting chain of a
    region predecessor (two copies of the same arc)."""
    inner_pre = pre_rec["inner"]
    chain = pre_rec["chain"]
    inner_post = hier.canon_fields(region_post.subregion)
    if not S and new in region_post._jump_targets:
        # S empty: the region got the new block appended; the copy of its arcs in
        # the exiting chain must have it too
        for name in chain:
            b = inner_post.get(name)
            if b is not None and new not in b["edges"]:
                errs.append(("stale-exiting-chain", "S empty: region %s now continues to %s but its exiting-chain block %s has %s" % (
                    region_post.name, new, name, b["edges"])))
                break
    for name in sorted(set(inner_pre) | set(inner_post)):
        a, b = inner_pre.get(name), inner_post.get(name)
        if a is None or b is None:
            errs.append(("other-block-changed", "%s inside region %s %s" % (
                name, region_post.name, "appeared" if a is None else "vanished")))
            continue
        if name in chain:
            k = sum(1 for t in a["edges"] if t in S and t not in a["backedges"])
            if k and a["edges"] == b["edges"] and a.get("table") == b.get("table"):
                # the inner copy of the arc was not touched at all
                errs.append(("stale-exiting-chain", "exiting-chain block %s of region %s still has %s" % (
                    name, region_post.name, b["edges"])))
                continue
            sub = check_rerouted(a["edges"], a["backedges"], b["edges"], b["backedges"], S, new)
            for cls, det in sub:
                errs.append((cls, "exiting-chain block %s of region %s: %s" % (name, region_post.name, det)))
            if "table" in a:
                old_table = {k_: v for k_, v in a["table"]}
                new_table = {k_: v for k_, v in b.get("table", [])}
                for cls, det in check_table(old_table, new_table, a["backedges"], S, new):
                    errs.append((cls, "exiting-chain block %s: %s" % (name, det)))
            ra = {k_: v for k_, v in a.items() if k_ not in ("edges", "backedges", "table")}
            rb = {k_: v for k_, v in b.items() if k_ not in ("edges", "backedges", "table")}
            if ra != rb:
                errs.append(("other-block-changed", "exiting-chain block %s changed beyond its arcs" % name))
        elif a != b:
            errs.append(("other-block-changed", "%s inside region %s changed" % (name, region_post.name)))


# ---------------------------------------------------------------- post-conditions

def post_insert(G, pre, new, P, S, btype, new_was_present):
    """insert_block(new, P, S).  Returns list of (class, detail)."""
    errs = []
    if new_was_present:
        return errs  # precondition broken (name clash) -- C18's subject
    nb = G.graph.get(new)
    if nb is None:
        return [("new-block-missing", new)]
    if type(nb) is not BTYPES[btype]:
        errs.append(("new-block-wrong-type", type(nb).__name__))
    if sorted(nb._jump_targets) != sorted(S):
        # "whose successors are exactly S": the statement fixes which, not in what order
        errs.append(("new-block-successors", "expected %s got %s" % (list(S), list(nb._jump_targets))))
    if nb.backedges:
        errs.append(("new-block-has-backedges", str(nb.backedges)))
    added = [n for n in G.graph if n not in pre]
    if added != [new] and sorted(added) != [new]:
        errs.append(("unexpected-blocks-added", str(sorted(added))))
    for name, rec in pre.items():
        b = G.graph.get(name)
        if b is None:
            errs.append(("block-removed", name))
            continue
        if name in P:
            for cls, det in check_rerouted(rec["targets"], rec["backedges"], b._jump_targets, b.backedges, S, new):
                errs.append((cls, "predecessor %s: %s" % (name, det)))
            if type(b).__name__ != rec["type"] or jdigest(hier.payload_of(b)) != rec["payload"]:
                errs.append(("other-block-changed", "predecessor %s changed type or payload" % name))
            if "table" in rec:
                if b.variable != rec["var"]:
                    errs.append(("table-variable-changed", name))
                for cls, det in check_table(rec["table"], dict(b.branch_value_table), rec["backedges"], S, new):
                    errs.append((cls, "predecessor %s: %s" % (name, det)))
            if "region" in rec:
                if (b.kind, b.header, b.exiting) != rec["region"]:
                    errs.append(("other-block-changed", "region predecessor %s changed kind/header/exiting" % name))
                _check_chain(b, rec, S, new, errs, name)
        else:
            f = _same(rec, b)
            if f is not None:
                errs.append(("other-block-changed", "%s field %s" % (name, f)))
    return errs


def post_control(G, pre, new, P, S, new_was_present, issued_now):
    """insert_block_and_control_blocks(new, P, S)."""
    errs = []
    if new_was_present:
        return errs
    nb = G.graph.get(new)
    if nb is None:
        return [("new-block-missing", new)]
    if type(nb) is not SyntheticHead:
        errs.append(("new-block-wrong-type", type(nb).__name__))
        return errs
    if sorted(nb._jump_targets) != sorted(S):
        # the head is steered by its table; the order of its successors carries no decision
        errs.append(("new-block-successors", "expected %s got %s" % (list(S), list(nb._jump_targets))))
    table = dict(nb.branch_value_table)
    var = nb.variable
    added = [n for n in G.graph if n not in pre and n != new]
    used = set()

    def check_arcs(old_t, old_be, new_t, label, container):
        old_f = [t for t in old_t if t not in old_be]
        if len(new_t) != len(old_t):
            errs.append(("arc-lost", "%s: %s -> %s" % (label, list(old_t), list(new_t))))
            return
        for i, t in enumerate(old_t):
            nt = new_t[i]
            if t in S and t not in old_be:
                a = container.get(nt)
                if nt in pre or a is None:
                    errs.append(("arc-not-rerouted", "%s position %d still -> %s" % (label, i, nt)))
                    continue
                if not isinstance(a, SyntheticAssignment):
                    errs.append(("arc-not-through-assignment", "%s position %d -> %s (%s)" % (label, i, nt, type(a).__name__)))
                    continue
                if (label, nt) in used:
                    errs.append(("assignment-shared", nt))
                used.add((label, nt))
                if tuple(a._jump_targets) != (new,):
                    errs.append(("assignment-wrong-target", "%s -> %s" % (nt, list(a._jump_targets))))
                val = a.variable_assignment.get(var)
                if val is None or table.get(val) != t:
                    errs.append(("head-continues-elsewhere", "arc %s->%s: assignment %s sets %s=%r, table maps it to %s" % (
                        label, t, nt, var, val, table.get(val))))
            elif nt != t:
                cls = "backedge-target-dropped" if t in old_be else "unrequested-arc-changed"
                errs.append((cls, "%s position %d: %s -> %s" % (label, i, t, nt)))

    for name, rec in pre.items():
        b = G.graph.get(name)
        if b is None:
            errs.append(("block-removed", name))
            continue
        if name in P:
            if tuple(b.backedges) != rec["backedges"]:
                errs.append(("backedges-changed", name))
            if len(b._jump_targets) != len(rec["targets"]) and any(
                    t in rec["backedges"] and t not in b._jump_targets for t in rec["targets"]):
                errs.append(("backedge-target-dropped", "predecessor %s: %s -> %s" % (
                    name, list(rec["targets"]), list(b._jump_targets))))
            else:
                check_arcs(rec["targets"], rec["backedges"], b._jump_targets, name, G.graph)
            if "table" in rec:
                nt = dict(b.branch_value_table)
                for key, tgt in rec["table"].items():
                    if key not in nt:
                        errs.append(("table-key-lost", "%s key %r" % (name, key)))
                    elif tgt in S and tgt not in rec["backedges"]:
                        a = G.graph.get(nt[key])
                        if nt[key] in pre or not isinstance(a, SyntheticAssignment):
                            errs.append(("table-not-rerouted", "%s key %r -> %s" % (name, key, nt[key])))
                    elif nt[key] != tgt:
                        errs.append(("table-entry-changed", "%s key %r" % (name, key)))
            if "region" in rec:
                if (b.kind, b.header, b.exiting) != rec["region"]:
                    errs.append(("other-block-changed", "region predecessor %s changed kind/header/exiting" % name))
                inner_post = hier.canon_fields(b.subregion)
                for iname in sorted(set(rec["inner"]) | set(inner_post)):
                    a_, b_ = rec["inner"].get(iname), inner_post.get(iname)
                    if a_ is None or b_ is None:
                        errs.append(("other-block-changed", "%s inside region %s appeared/vanished" % (iname, name)))
                    elif iname in rec["chain"]:
                        # the chain must name what the region names, position by position
                        exp = list(a_["edges"])
                        rt = list(rec["targets"])
                        nt_ = list(b._jump_targets)
                        for i, t in enumerate(exp):
                            if t in S and t not in a_["backedges"] and t in rt:
                                j = rt.index(t)
                                if j < len(nt_):
                                    exp[i] = nt_[j]
                        if list(b_["edges"]) != exp:
                            errs.append(("stale-exiting-chain", "exiting-chain block %s of region %s has %s, region has %s" % (
                                iname, name, b_["edges"], nt_)))
                    elif a_ != b_:
                        errs.append(("other-block-changed", "%s inside region %s changed" % (iname, name)))
        else:
            f = _same(rec, b)
            if f is not None:
                errs.append(("other-block-changed", "%s field %s" % (name, f)))
    for n in added:
        if not isinstance(G.graph[n], SyntheticAssignment):
            errs.append(("unexpected-blocks-added", n))
    return errs


def post_join_returns(G, pre):
    errs = []
    exits = [n for n, r in pre.items() if not r["targets"]]
    added = [n for n in G.graph if n not in pre]
    if len(exits) <= 1:
        if added:
            errs.append(("closed-when-not-needed", str(added)))
        for name, rec in pre.items():
            b = G.graph.get(name)
            if b is None or _same(rec, b) is not None:
                errs.append(("other-block-changed", name))
        return errs
    if len(added) != 1:
        return [("join-returns-added", str(added))]
    new = added[0]
    nb = G.graph[new]
    if type(nb) is not SyntheticReturn or nb._jump_targets:
        errs.append(("new-block-wrong-type", "%s %s" % (type(nb).__name__, list(nb._jump_targets))))
    for name, rec in pre.items():
        b = G.graph.get(name)
        if b is None:
            errs.append(("block-removed", name))
        elif name in exits:
            if tuple(b._jump_targets) != (new,):
                errs.append(("exit-not-joined", "%s -> %s" % (name, list(b._jump_targets))))
        else:
            f = _same(rec, b)
            if f is not None:
                errs.append(("other-block-changed", "%s field %s" % (name, f)))
    now_exits = [n for n, b in G.graph.items() if not b._jump_targets]
    if now_exits != [new]:
        errs.append(("not-exactly-one-exit", str(now_exits)))
    return errs


def post_jte(G, pre, tails, exits, ret):
    errs = []
    if not (isinstance(ret, tuple) and len(ret) == 2):
        return [("bad-return", repr(ret))]
    st, se = ret
    if st not in G.graph or se not in G.graph:
        errs.append(("returned-name-not-present", "%s %s" % (st, se)))
        return errs
    newset = set(n for n in G.graph if n not in pre)
    for name, rec in pre.items():
        b = G.graph.get(name)
        if b is None:
            errs.append(("block-removed", name))
            continue
        if name in tails:
            old_f = [t for t in rec["targets"] if t not in rec["backedges"]]
            new_f = [t for t in b._jump_targets if t not in rec["backedges"]]
            keep_old = [t for t in old_f if t not in exits]
            keep_new = [t for t in new_f if t not in newset and not (t in exits)]
            if keep_old != keep_new:
                errs.append(("unrequested-arc-changed", "tail %s: %s -> %s" % (name, old_f, new_f)))
            for t in rec["backedges"]:
                if t in rec["targets"] and t not in b._jump_targets:
                    errs.append(("backedge-target-dropped", "tail %s" % name))
            for e in old_f:
                if e in exits:
                    # a chain tail -> (new blocks only) -> e passing st and se
                    ok = False
                    stack = [(x, (name, x)) for x in b._jump_targets]
                    seen = set()
                    while stack:
                        cur, path = stack.pop()
                        if cur == e:
                            if st in path and se in path:
                                ok = True
                                break
                            continue
                        if cur not in newset or cur in seen:
                            continue
                        seen.add(cur)
                        for x in G.graph[cur]._jump_targets:
                            stack.append((x, path + (x,)))
                    if not ok:
                        errs.append(("arc-lost", "arc %s->%s does not run through the returned tail %s and exit %s" % (name, e, st, se)))
        else:
            f = _same(rec, b)
            if f is not None:
                errs.append(("other-block-changed", "%s field %s" % (name, f)))
    return errs
