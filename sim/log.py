"""Event log of a run (DESIGN 2.4).  Logging never draws from an RNG and never
reads a clock."""
import hashlib
import json


def jdigest(obj):
    return hashlib.sha256(
        json.dumps(obj, sort_keys=True, default=str, separators=(",", ":")).encode("utf-8")
    ).hexdigest()[:16]


class EventLog:
    def __init__(self, keep=False):
        self.h = hashlib.sha256()
        self.n = 0
        self.keep = keep
        self.events = []

    def add(self, kind, payload=None):
        rec = json.dumps([self.n, kind, payload], sort_keys=True, default=str,
                         separators=(",", ":"))
        self.h.update(rec.encode("utf-8"))
        self.h.update(b"\n")
        if self.keep:
            self.events.append(rec)
        self.n += 1

    def digest(self):
        return self.h.hexdigest()[:24]
