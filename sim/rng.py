"""Seed-derived random streams (DESIGN 2.1).

Every choice in a run is drawn from an Rng that is a pure function of
(VERIF_SEED, label path).  Forking by label means that adding a draw in one
component never shifts the stream of another.
"""
import hashlib
import random


class Rng:
    __slots__ = ("key", "r")

    def __init__(self, seed, label=""):
        self.key = "%s|%s" % (seed, label)
        h = hashlib.sha256(self.key.encode("utf-8")).digest()
        self.r = random.Random(int.from_bytes(h[:16], "big"))

    def fork(self, label):
        return Rng(self.key, str(label))

    # thin wrappers, list based only (never sets)
    def random(self):
        return self.r.random()

    def randrange(self, *a):
        return self.r.randrange(*a)

    def randint(self, a, b):
        return self.r.randint(a, b)

    def choice(self, seq):
        return seq[self.r.randrange(len(seq))]

    def sample(self, seq, k):
        return self.r.sample(list(seq), k)

    def shuffle(self, lst):
        self.r.shuffle(lst)

    def chance(self, p):
        return self.r.random() < p

    def weighted(self, pairs):
        """pairs: list of (item, weight)."""
        tot = sum(w for _, w in pairs)
        x = self.r.random() * tot
        acc = 0.0
        for it, w in pairs:
            acc += w
            if x < acc:
                return it
        return pairs[-1][0]


def derive_int(seed, label, mod=2 ** 32):
    h = hashlib.sha256(("%s|%s" % (seed, label)).encode("utf-8")).digest()
    return int.from_bytes(h[:8], "big") % mod
