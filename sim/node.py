"""A node (DESIGN 2.2): a fresh child interpreter with a planned hash seed that
executes one batch of runs, a replay, or a minimisation.  Reads one JSON spec
on stdin, writes one JSON document on stdout."""
import json
import os
import signal
import sys
import time
import traceback


def _engine(name):
    import importlib
    return importlib.import_module("sim." + name)


class RunTimeout(BaseException):
    """BaseException: engine code that catches Exception (to record the outcome
    of an executed artefact) must not swallow the wall-clock guard."""


def _alarm(_sig, _frm):
    raise RunTimeout()


def guarded(fn, seconds):
    """Per-run wall-clock guard: can only make a run INCONCLUSIVE, never a
    violation (DESIGN 2.3)."""
    signal.signal(signal.SIGALRM, _alarm)
    signal.setitimer(signal.ITIMER_REAL, seconds)
    try:
        return fn()
    finally:
        signal.setitimer(signal.ITIMER_REAL, 0)


def check_environment(spec):
    import numba_scfg
    repo = os.path.realpath(os.environ.get("VERIF_REPO", "/repo"))
    f = os.path.realpath(numba_scfg.__file__)
    if not f.startswith(repo + os.sep):
        raise RuntimeError("numba_scfg imported from %s, expected under %s" % (f, repo))
    want = spec.get("hash_seed")
    got = os.environ.get("PYTHONHASHSEED")
    if want is not None and str(want) != str(got):
        raise RuntimeError("PYTHONHASHSEED=%s, planned %s" % (got, want))
    if want not in (None, 0) and not sys.flags.hash_randomization:
        raise RuntimeError("hash randomisation is off (interpreter ignored PYTHONHASHSEED?)")
    return {"repo": repo, "hash_seed": got, "python": sys.version.split()[0]}


def run_guarded_case(eng, case, tmo, keep_log=False):
    """run_case under the wall-clock guard.  A timeout makes the run
    INCONCLUSIVE -- except where the engine can say that the library was inside a
    call that must terminate (an edit primitive): then it is that call's violation."""
    try:
        if keep_log:
            return guarded(lambda: eng.run_case(case, keep_log=True), tmo)
        return guarded(lambda: eng.run_case(case), tmo)
    except RunTimeout:
        res = {"violations": [], "inconclusive": "TIMEOUT", "nontrivial": False,
               "stats": {}, "states": [], "reach": {}, "log_digest": None, "case_digest": None}
        ctx = getattr(eng, "timeout_context", None)
        if ctx is not None:
            res["violations"] = ctx(case) or []
        return res


def run_batch(spec):
    from sim.rng import Rng
    eng = _engine(spec["engine"])
    out = []
    tmo = spec.get("run_timeout_s", 60)
    for seed in spec["run_seeds"]:
        rng = Rng(spec["verif_seed"], "%s/run%d" % (spec["engine"], seed))
        row = {"seed": seed}
        try:
            case = eng.gen_case(rng, spec["tier"], spec.get("params"))
            t0 = time.perf_counter()
            res = run_guarded_case(eng, case, tmo)
            row.update(res)
            row["wall_ms"] = int(1000 * (time.perf_counter() - t0))
            if res["violations"] or spec.get("want_cases") or len(out) < spec.get("samples", 1):
                row["case"] = case
        except RunTimeout:
            row.update({"violations": [], "inconclusive": "TIMEOUT", "stats": {}, "states": [],
                        "reach": {}, "nontrivial": False})
        out.append(row)
    return {"runs": out}


def run_replay(spec):
    eng = _engine(spec["engine"])
    res = run_guarded_case(eng, spec["case"], spec.get("run_timeout_s", 60), spec.get("keep_log", False))
    return {"result": res}


def run_minimise(spec):
    """Greedy shrinking inside one node (same hash seed as the original run),
    keeping a candidate iff the same violation signature persists."""
    eng = _engine(spec["engine"])
    case = spec["case"]
    sig = spec["signature"]
    budget = spec.get("budget_s", 60)
    avoid = spec.get("avoid_known") or []
    t0 = time.time()
    tried = 0
    kept = 0

    def fails(c):
        try:
            r = run_guarded_case(eng, c, 20)
        except Exception:
            return None
        for v in r["violations"]:
            if v["signature"] == sig:
                if avoid and hasattr(eng, "where_facts"):
                    # never let shrinking morph an unlisted violation into the shape
                    # of a known finding (it would then be masked)
                    from sim import findings
                    if findings.match(v["property"], sig, eng.where_facts(c, v), avoid) is not None:
                        return None
                return v
        return None

    viol = fails(case)
    if viol is None:
        return {"case": case, "violation": None, "tried": 0, "kept": 0, "reproduced": False}
    if hasattr(eng, "case_for_violation"):
        c2 = eng.case_for_violation(case, viol)
        v2 = fails(c2)
        if v2 is not None:
            case, viol = c2, v2
    progress = True
    while progress and time.time() - t0 < budget:
        progress = False
        for cand in eng.shrink_candidates(case, viol):
            if time.time() - t0 >= budget:
                break
            tried += 1
            v = fails(cand)
            if v is not None:
                case, viol = cand, v
                kept += 1
                progress = True
                break
    return {"case": case, "violation": viol, "tried": tried, "kept": kept, "reproduced": True}


def main():
    spec = json.load(sys.stdin)
    out = {"ok": True}
    try:
        out["node"] = check_environment(spec)
        mode = spec["mode"]
        if mode == "batch":
            out.update(run_batch(spec))
        elif mode == "replay":
            out.update(run_replay(spec))
        elif mode == "minimise":
            out.update(run_minimise(spec))
        elif mode == "custom":
            eng = _engine(spec["engine"])
            out.update(getattr(eng, spec["func"])(spec))
        else:
            raise ValueError(mode)
    except BaseException as e:  # harness error: never a verdict
        out = {"ok": False, "error": "%s: %s" % (type(e).__name__, e),
               "traceback": traceback.format_exc()[-3000:]}
    sys.stdout.write(json.dumps(out, default=str))
    sys.stdout.flush()


if __name__ == "__main__":
    main()
