"""HASHSIM engine (DESIGN 4.1): many interpreters, one input, outcomes must
coincide.  Decides C12.

World: N nodes (child interpreters).  Per node the scheduler draws a hash
seed, a subsequence-and-permutation of the job corpus (so each job meets
different prehistories) and repeat positions.  Oracle: for every job, all
outcome digests of all its executions on all nodes are equal, stage by stage.
"""
import ast
import collections
import json
import os
import time

from sim import fleet, findings
from sim.log import jdigest
from sim.rng import Rng

STDLIB_REFS = [
    "textwrap:shorten", "textwrap:dedent", "textwrap:indent", "bisect:bisect_left",
    "bisect:insort_right", "heapq:nsmallest", "heapq:merge", "shlex:quote",
    "posixpath:normpath", "posixpath:join", "posixpath:commonpath", "fnmatch:translate",
    "keyword:iskeyword", "string:capwords", "statistics:median", "colorsys:rgb_to_hls",
    "difflib:get_close_matches", "glob:has_magic", "stat:filemode", "copy:copy",
    "random:Random.randrange", "calendar:isleap", "calendar:weekday", "base64:b32encode",
    "json.decoder:py_scanstring", "ipaddress:ip_address", "urllib.parse:urlsplit",
]


# ---------------------------------------------------------------- corpus

def gen_corpus(seed, tier):
    from sim import graphgen, proggen
    njobs = 960 if tier == "quick" else 4000
    nmax = 14 if tier == "quick" else 22
    jobs = []
    for j in range(njobs):
        rng = Rng(seed, "hashsim/job%d" % j)
        kind = rng.weighted([("graph", 6), ("src", 3), ("bc", 1.5), ("bcref", 1.5), ("reload", 2.5)])
        if kind == "reload":
            # a partly restructured graph written out and read back before the
            # remaining stages: the input then carries generated-looking names
            # (what a process did to such names before must not matter)
            fam = rng.choice(["rand", "struct", "irred", "irred"])
            n = rng.randint(4, nmax)
            style = rng.weighted([("frontend", 3), ("generator", 2), ("adversarial", 2)])
            jobs.append({"kind": "reload", "family": fam, "after_stage": rng.choice([1, 2, 2, 2]),
                         "fmt": rng.choice(["dict", "dict", "yaml"]),
                         "blocks": graphgen.gen_graph(rng.fork("g"), fam, n, style)})
        elif kind == "graph":
            fam = rng.choice(["rand", "struct", "irred", "irred"])
            n = rng.randint(4, nmax)
            style = rng.weighted([("frontend", 4), ("generator", 3), ("bytecode", 2), ("zeropad", 1)])
            jobs.append({"kind": "graph", "family": fam,
                         "blocks": graphgen.gen_graph(rng.fork("g"), fam, n, style)})
        elif kind in ("src", "bc"):
            jobs.append({"kind": kind,
                         "source": proggen.gen_program(rng.fork("p"), size=rng.randint(4, 16))})
        else:
            from sim import stdcorpus
            refs = stdcorpus.list_refs(400 if tier == "quick" else 1600)
            jobs.append({"kind": "bcref", "ref": rng.choice(refs)})
    return jobs


def gen_plans(seed, tier, njobs, nnodes):
    plans = []
    for i in range(nnodes):
        rng = Rng(seed, "hashsim/node%d" % i)
        hs = fleet.hash_seed_for(seed, "hashsim/node%d" % i, force_zero=(i == 0))
        order = [j for j in range(njobs) if rng.chance(0.8)]
        rng.shuffle(order)
        # in-process repeats
        for _ in range(max(1, len(order) // 25)):
            if order:
                j = rng.choice(order)
                order.insert(rng.randrange(len(order) + 1), j)
        plans.append({"node": i, "hash_seed": hs, "order": order})
    return plans


# ---------------------------------------------------------------- node side

def _exc_site(e):
    from sim.cosim import innermost_repo_frame
    return "EXC:%s@%s" % (type(e).__name__, innermost_repo_frame(e))


def exec_job(job):
    """Execute one job, return the list of outcome digests (stage by stage)."""
    from sim import hier, workload, graphgen
    out = []
    kind = job["kind"]
    try:
        if kind == "graph":
            g = graphgen.build_scfg(job["blocks"])
            out.append(hier.digest_ordered(g))
            g.join_returns()
            out.append(hier.digest_ordered(g))
            g.restructure_loop()
            out.append(hier.digest_ordered(g))
            g.restructure_branch()
            out.append(hier.digest_ordered(g))
        elif kind == "reload":
            from numba_scfg.core.datastructures.scfg import SCFG
            from sim.cosim import apply_stage
            g = graphgen.build_scfg(job["blocks"])
            for st in range(1, job["after_stage"] + 1):
                apply_stage(g, st)
            out.append(hier.digest_ordered(g))
            if job["fmt"] == "dict":
                g = SCFG.from_dict(g.to_dict())[0]
            else:
                g = SCFG.from_yaml(g.to_yaml())[0]
            out.append(hier.digest_ordered(g))
            for st in range(job["after_stage"] + 1, 4):
                apply_stage(g, st)
            out.append(hier.digest_ordered(g))
        elif kind == "src":
            from numba_scfg.core.datastructures.ast_transforms import AST2SCFG, SCFG2AST
            g = AST2SCFG(job["source"])
            out.append(hier.digest_ordered(g))
            g.restructure()
            out.append(hier.digest_ordered(g))
            out.append(jdigest(ast.unparse(SCFG2AST(job["source"], g))))
        else:
            from numba_scfg.core.datastructures.byte_flow import ByteFlow
            fn = workload.compile_function(job["source"]) if kind == "bc" else workload.resolve_ref(job["ref"])
            g = ByteFlow.from_bytecode(fn).scfg
            out.append(hier.digest_ordered(g))
            g.restructure()
            out.append(hier.digest_ordered(g))
    except Exception as e:
        out.append(_exc_site(e))
    return out


def job_names(job):
    if job["kind"] in ("graph", "reload"):
        return [d[0] for d in job["blocks"]]
    return None


def node_exec(spec):
    """custom node entry: execute spec['jobs'][i] for i in spec['order']."""
    jobs = spec["jobs"]
    rows = []
    for pos, j in enumerate(spec["order"]):
        job = jobs[j]
        outcome = exec_job(job)
        names = job_names(job)
        if names is None:
            names = ["%s_block_%d" % (k, i) for k in ("synth_asign", "python_bytecode", "loop_region")
                     for i in range(6)] + [str(i) for i in range(12)]
        order_probe = jdigest(list(set(names)))
        rows.append([j, pos, outcome, order_probe])
    return {"rows": rows}


# ---------------------------------------------------------------- parent side

def _nontrivial_job(job):
    if job["kind"] not in ("graph", "reload"):
        return True
    succ = {d[0]: d[2] for d in job["blocks"]}
    return any(len(t) > 1 for t in succ.values())


def check(prop, tier, seed):
    from sim import driver
    t0 = time.time()
    nnodes = driver.PROPS[prop][tier][0]
    if os.environ.get("VERIF_BATCHES"):
        nnodes = int(os.environ["VERIF_BATCHES"])
    jobs = gen_corpus(seed, tier)
    plans = gen_plans(seed, tier, len(jobs), nnodes)
    specs = [{"mode": "custom", "engine": "hashsim", "func": "node_exec", "jobs": jobs,
              "order": p["order"], "hash_seed": p["hash_seed"], "batch": p["node"]} for p in plans]
    results = fleet.run_nodes(specs, timeout=1800)
    bad = [r for r in results if not r.get("ok")]
    if bad:
        raise driver.Harness("%d of %d nodes failed: %s\n%s" % (
            len(bad), len(results), bad[0].get("error"), (bad[0].get("traceback") or bad[0].get("stderr") or "")[-1500:]))
    by_job = collections.defaultdict(list)  # j -> [(node, pos, outcome)]
    probes = collections.defaultdict(set)
    evals = 0
    repeats = 0
    for p, r in zip(plans, results):
        seen_here = set()
        for j, pos, outcome, probe in r["rows"]:
            by_job[j].append((p["node"], pos, outcome))
            probes[j].add(probe)
            evals += 1
            if j in seen_here:
                repeats += 1
            seen_here.add(j)
    disagree = []
    raised = 0
    for j in sorted(by_job):
        outs = by_job[j]
        ref = outs[0][2]
        if any(o[-1].startswith("EXC:") for _n, _p, o in outs[:1]):
            raised += 1
        for node, pos, o in outs[1:]:
            if o != ref:
                disagree.append((j, outs[0][0], node))
                break
    nontriv = [j for j in by_job if len(probes[j]) >= 2 and _nontrivial_job(jobs[j])]
    lines = []
    n_new = 0
    n_known = 0
    known = findings.load()
    os.makedirs(driver.REPLAY_DIR, exist_ok=True)
    for n, (j, na, nb) in enumerate(disagree[:4]):
        pa, pb = plans[na], plans[nb]
        doc = minimise(jobs, j, pa, pb, seed)
        sig = doc["violation"]["signature"]
        e = findings.match(prop, sig, doc.get("facts", {}), known)
        if e is not None:
            n_known += 1
            lines.append("KNOWN-FINDING: property=%s %s [signature=%s job=%d]" % (prop, e.get("what", ""), sig, j))
            continue
        path = os.path.join(driver.REPLAY_DIR, "%s-%d-%d.json" % (prop, seed, n))
        doc.update({"property": prop, "engine": "hashsim", "verif_seed": seed, "tier": tier, "job_index": j})
        with open(path, "w") as f:
            json.dump(doc, f, indent=1)
        n_new += 1
        lines.append("VIOLATION property=%s replay=%s" % (prop, path))
        lines.append("  signature=%s stage=%s hash_seeds=%s" % (sig, doc["violation"].get("stage"), doc["hash_seeds"]))
    if len(disagree) > 4:
        n_new += len(disagree) - 4
        lines.append("(+%d further disagreeing jobs not minimised)" % (len(disagree) - 4))
    cov = {
        "evaluations": evals,
        "distinct_nontrivial": len(nontriv),
        "rule": driver.RULES["hashsim"],
        "samples": [{"job": jobs[j], "executions": len(by_job[j]),
                     "distinct_set_orders_observed": len(probes[j]),
                     "outcome": by_job[j][0][2]} for j in sorted(by_job)[:3]],
        "nodes": len(plans),
        "jobs": len(jobs),
        "jobs_executed_on_2plus_nodes": sum(1 for j in by_job if len(set(n for n, _p, _o in by_job[j])) >= 2),
        "jobs_by_kind": dict(collections.Counter(j["kind"] for j in jobs)),
        "jobs_raising_consistently": raised,
        "faults_fired": {"hash-seed-change(nodes)": len(plans), "prehistory-variation(job executions)": evals,
                         "in-process-repeat": repeats},
        "distinct_states": len(set(jdigest(o) for outs in by_job.values() for _n, _p, o in outs)),
        "disagreeing_jobs": len(disagree),
        "hash_seeds": [p["hash_seed"] for p in plans][:32],
        "components": driver.COMPONENTS,
        "timeouts": 0,
    }
    return cov, lines, n_new, n_known


def _eval_jobs(cands, hash_seed, prehistory=None):
    """Execute candidate jobs (each alone, or after a prehistory) in one node."""
    jobs = list(prehistory or []) + list(cands)
    order = list(range(len(jobs)))
    out = fleet.spawn_node({"mode": "custom", "engine": "hashsim", "func": "node_exec",
                            "jobs": jobs, "order": order, "hash_seed": hash_seed}, timeout=600)
    if not out.get("ok"):
        return None
    rows = out["rows"][len(prehistory or []):]
    return [r[2] for r in rows]


def minimise(jobs, j, pa, pb, seed, budget=60):
    """Reduce to: the job alone under two hash seeds (S1), else keep the
    prehistories (S2); then shrink the job with the graph/source reducers."""
    from sim import reducers
    t0 = time.time()
    job = jobs[j]
    ha, hb = pa["hash_seed"], pb["hash_seed"]
    oa = _eval_jobs([job], ha)
    ob = _eval_jobs([job], hb)
    doc = {"hash_seeds": [ha, hb]}
    if oa is not None and ob is not None and oa[0] != ob[0]:
        kind = "hash-seed"
        cur = job
        progress = True
        while progress and time.time() - t0 < budget:
            progress = False
            if cur["kind"] in ("graph", "reload"):
                cands = [dict(cur, blocks=b) for b in reducers.shrink_graph(cur["blocks"])][:60]
            elif cur["kind"] in ("src", "bc"):
                cands = [dict(cur, source=s) for s in reducers.shrink_source(cur["source"])][:60]
            else:
                cands = []
            if not cands:
                break
            ra = _eval_jobs(cands, ha)
            rb = _eval_jobs(cands, hb)
            if ra is None or rb is None:
                break
            for c, x, y in zip(cands, ra, rb):
                if x != y:
                    cur = c
                    oa, ob = [x], [y]
                    progress = True
                    break
        doc["job"] = cur
        doc["prehistory"] = None
    else:
        kind = "prehistory"
        doc["job"] = job
        doc["prehistory"] = {"a": [jobs[i] for i in pa["order"][: pa["order"].index(j)]][-50:],
                             "b": [jobs[i] for i in pb["order"][: pb["order"].index(j)]][-50:]}
        oa = ob = None
    stage = None
    if oa and ob:
        for s, (x, y) in enumerate(zip(oa[0], ob[0])):
            if x != y:
                stage = s
                break
    doc["violation"] = {"signature": "C12:outcome-differs:%s:%s" % (kind, doc["job"]["kind"]), "stage": stage,
                        "outcomes": [oa[0] if oa else None, ob[0] if ob else None]}
    doc["facts"] = {"kind": doc["job"]["kind"], "cause": kind}
    return doc


def replay(prop, doc, path):
    job = doc["job"]
    ha, hb = doc["hash_seeds"]
    pre = doc.get("prehistory") or {}
    oa = _eval_jobs([job], ha, pre.get("a"))
    ob = _eval_jobs([job], hb, pre.get("b"))
    if oa is None or ob is None:
        print("HARNESS-ERROR: node failed during replay")
        return 2
    if oa[0] != ob[0]:
        print("VIOLATION property=%s replay=%s" % (prop, path))
        print("  outcomes under PYTHONHASHSEED=%s: %s" % (ha, oa[0]))
        print("  outcomes under PYTHONHASHSEED=%s: %s" % (hb, ob[0]))
        return 1
    print("NOT-REPRODUCED property=%s replay=%s" % (prop, path))
    return 0
