"""COSIM engine (DESIGN 4.3): lockstep execution of W0 / W1 / W2 under seeded
decision schedules at every stage prefix.  Decides C01, C04, C06."""
from sim.rng import Rng
from sim.log import EventLog, jdigest
from sim import graphgen, hier, workload
from sim.walkers import W0, W1, W2, Viol

STAGES = ["raw", "join_returns", "restructure_loop", "restructure_branch"]


def innermost_repo_frame(exc):
    import traceback
    tb = traceback.extract_tb(exc.__traceback__)
    site = "?"
    for fr in tb:
        if "numba_scfg" in fr.filename and "/tests/" not in fr.filename:
            site = "%s:%s" % (fr.filename.rsplit("/", 1)[-1], fr.name)
    return site


def apply_stage(g, idx):
    if idx == 1:
        g.join_returns()
    elif idx == 2:
        g.restructure_loop()
    elif idx == 3:
        g.restructure_branch()


# ---------------------------------------------------------------- case generation

def gen_case(rng, tier, params=None):
    params = params or {}
    quick = tier == "quick"
    cfg = rng.fork("cfg")
    fam = cfg.weighted([("rand", 4), ("struct", 3), ("irred", 3), ("src", 2), ("bc", 1), ("bcref", 1.2)])
    if fam in ("rand", "struct") and rng.fork("sharedexit").chance(0.12):
        fam = "sharedexit"
    if params.get("family"):
        fam = params["family"]
    nmax = 12 if quick else 24
    n = cfg.randint(2, nmax) if cfg.chance(0.8) else cfg.randint(2, 7)
    m = 24 if quick else 200
    if params.get("m"):
        m = params["m"]
    wl = None
    if fam == "bcref":
        from sim import stdcorpus
        refs = stdcorpus.list_refs(400 if quick else 1600)
        wl = {"kind": "bcref", "ref": cfg.choice(refs)}
    elif fam in ("src", "bc"):
        from sim import proggen
        src = proggen.gen_program(rng.fork("prog"), size=cfg.randint(3, 14 if quick else 25))
        wl = {"kind": fam, "source": src}
    else:
        style = cfg.weighted([("frontend", 5), ("generator", 2), ("bytecode", 2), ("zeropad", 0.7)])
        desc = graphgen.gen_graph(rng.fork("graph"), fam, n, style)
        wl = {"kind": "graph", "family": fam, "blocks": desc}
    return {"engine": "cosim", "workload": wl,
            "sched_seed": rng.fork("sched").randrange(2 ** 48), "m": m}


# ---------------------------------------------------------------- one schedule

def _dist_to_exit(genesis):
    succ = {d[0]: d[2] for d in genesis}
    dist = {n: (0 if not succ[n] else None) for n in succ}
    changed = True
    while changed:
        changed = False
        for n in succ:
            best = dist[n]
            for t in succ[n]:
                if dist[t] is not None and (best is None or dist[t] + 1 < best):
                    best = dist[t] + 1
            if best != dist[n]:
                dist[n] = best
                changed = True
    return dist


class _Ctx:
    pass


def run_schedule(g, genesis, originals, dist, nblocks, rng, covered, explicit, L, stats):
    """Run one schedule on hierarchy g.  Returns (decisions, violations, info)."""
    viols = []
    w0 = W0(genesis)
    w0seq = [w0.cur]
    w1 = W1(g, originals)
    w1.m.synth_budget = 4 * nblocks + 8
    decisions = []
    exit_bias = 0.0
    if explicit is None:
        exit_bias = rng.choice([0.0, 0.0, 0.3, 0.7])
    w1_ok = True
    arcs = set()
    try:
        w1.start()
        while True:
            o = w1.run_to_original()
            if o is None:
                if not w0.done:
                    raise Viol("C01", "stopped-early", w1.trace[-1] if w1.trace else "?",
                               "by-name walk ended while the original is at %s" % w0.cur)
                break
            if w0.done:
                raise Viol("C01", "ran-past-exit", o,
                           "original stopped at %s but the by-name walk reached %s" % (w0.cur, o))
            if o != w0.cur:
                raise Viol("C01", "trace-divergence", o,
                           "expected original block %s, by-name walk reached %s" % (w0.cur, o))
            k = w0.arity()
            if k == 0:
                w0.done = True
                w1.take(0)
                continue
            if explicit is not None:
                if len(decisions) >= len(explicit):
                    break
                i = explicit[len(decisions)] % k
            else:
                if len(decisions) >= L:
                    break
                key0 = (o, tuple(sorted(w1.m.val.items())))
                covered.add(("state", key0, k))
                fresh = [j for j in range(k) if (key0, j) not in covered]
                if exit_bias and rng.chance(exit_bias):
                    succ = w0.succ[w0.cur]
                    i = min(range(k), key=lambda j: (dist[succ[j]] if dist[succ[j]] is not None else 10 ** 6, j))
                elif fresh and rng.chance(0.75):
                    i = rng.choice(fresh)
                else:
                    i = rng.randrange(k)
                covered.add((key0, i))
            arcs.add((o, i))
            decisions.append(i)
            w0.take(i)
            w0seq.append(w0.cur)
            w1.take(i)
    except Viol as v:
        w1_ok = False
        viols.append(v)
    except RecursionError:
        w1_ok = False
        viols.append(Viol("C01", "walker-recursion", "?", "region nesting too deep to walk"))
    stats["w1_steps"] += len(w1.trace)
    stats["c06_branch_events"] += w1.m.c06_events
    if viols and viols[0].prop == "C04" and viols[0].cls == "unresolvable-target":
        # follow the same decisions over the flattened hierarchy (names are unique,
        # so a global lookup is well defined): what the dangling name leads to is
        # C06's and C01's business as well
        wf = W1(g, originals, flat=True)
        wf.m.synth_budget = 4 * nblocks + 8
        stats["flat_rewalks"] = stats.get("flat_rewalks", 0) + 1
        try:
            wf.start()
            j = 0
            seq = [genesis[0][0]]
            ref = W0(genesis)
            while True:
                o = wf.run_to_original()
                if o is None:
                    break
                if o != ref.cur:
                    raise Viol("C01", "trace-divergence(flat-walk)", o,
                               "expected original block %s, flattened walk reached %s" % (ref.cur, o))
                if ref.arity() == 0:
                    wf.take(0)
                    continue
                if j >= len(decisions):
                    break
                ref.take(decisions[j])
                wf.take(decisions[j])
                j += 1
        except Viol as v2:
            if v2.prop in ("C06", "C01"):
                v2.cls = v2.cls if v2.cls.endswith("(flat-walk)") else v2.cls + "(flat-walk)"
                viols.append(v2)
        except RecursionError:
            pass

    # W2 on the same decisions (if W1 died mid-way, W0 has one decision more
    # applied than recorded at most; the recorded list is what W2 replays)
    w2 = W2(g, originals)
    w2.m.synth_budget = 4 * nblocks + 8
    try:
        w2.run(decisions)
        exp = w0seq[: len(w2.orig_trace)]
        if w2.orig_trace != exp:
            raise Viol("C01", "trace-divergence-regionwise",
                       w2.orig_trace[-1] if w2.orig_trace else "?",
                       "region-wise walk visited %s, original %s" % (w2.orig_trace[-6:], exp[-6:]))
        if w1_ok:
            if w2.trace != w1.trace:
                # first difference
                j = 0
                while j < min(len(w1.trace), len(w2.trace)) and w1.trace[j] == w2.trace[j]:
                    j += 1
                raise Viol("C04", "walk-divergence", (w1.trace + ["<end>"])[j],
                           "by-name walk and region-wise walk differ at leaf %d: %s vs %s" % (
                               j, w1.trace[j:j + 3], w2.trace[j:j + 3]))
            if w1.ended != w2.ended:
                raise Viol("C04", "walk-divergence", "<end>", "one walk ended, the other did not")
            if len(w2.orig_trace) != len(w0seq) and not (w0.done and len(w2.orig_trace) == len(w0seq)):
                pass
    except Viol as v:
        viols.append(v)
    except RecursionError:
        viols.append(Viol("C01", "walker-recursion", "?", "region nesting too deep to walk"))
    stats["w2_steps"] += len(w2.trace)
    info = {"ended": w0.done, "arcs": arcs, "ndec": len(decisions)}
    return decisions, viols, info


# ---------------------------------------------------------------- one run

def _vrec(v, stage, sched_idx, decisions):
    recs = [{
        "property": v.prop,
        "signature": "%s:%s:after=%s" % (v.prop, v.cls, STAGES[stage]),
        "class": v.cls, "stage": stage, "where": v.where, "detail": v.detail[:400],
        "schedule_index": sched_idx, "decisions": list(decisions) if decisions is not None else None,
    }]
    if v.prop != "C01" and decisions is not None:
        # a walk that cannot continue is also a failure of path preservation
        recs.append({
            "property": "C01",
            "signature": "C01:walk-aborted(%s):after=%s" % (v.cls, STAGES[stage]),
            "class": "walk-aborted(%s)" % v.cls, "stage": stage, "where": v.where,
            "detail": v.detail[:400], "schedule_index": sched_idx,
            "decisions": list(decisions),
        })
    return recs


def run_case(case, keep_log=False):
    log = EventLog(keep=keep_log)
    stats = {"w1_steps": 0, "w2_steps": 0, "schedules": 0, "decisions": 0,
             "c06_branch_events": 0, "stages_applied": 0, "schedules_ended": 0,
             "state_invariant_evals": 0}
    res = {"violations": [], "inconclusive": None, "nontrivial": False,
           "stats": stats, "states": [], "reach": {}}
    wl = case["workload"]
    log.add("workload", jdigest(wl))
    try:
        g, genesis = workload.build(wl)
    except workload.Skip as s:
        res["inconclusive"] = "SKIP:" + s.reason
        res["log_digest"] = log.digest()
        res["case_digest"] = jdigest(wl)
        return res
    res["case_digest"] = jdigest([wl, case.get("sched_seed"), case.get("schedules")])
    originals = {d[0]: len(d[2]) for d in genesis}
    dist = _dist_to_exit(genesis)
    rng = Rng(case.get("sched_seed", 0), "schedules")
    explicit = case.get("schedules")  # {stage: [decisions...]} for replay
    only_stage = case.get("only_stage")
    m = case.get("m", 24)
    L = 8 * len(genesis) + 16
    seen_sig = set()
    total_arcs = sum(len(d[2]) for d in genesis)
    arcs_taken = set()
    long_sched = False
    all_closed = True
    for stage in range(4):
        if stage:
            try:
                apply_stage(g, stage)
            except Exception as e:
                site = "%s@%s" % (type(e).__name__, innermost_repo_frame(e))
                res["inconclusive"] = "STAGE-RAISED:%s:%s" % (STAGES[stage], site)
                log.add("stage-raised", [stage, site])
                break
            stats["stages_applied"] += 1
        dg = hier.digest_ordered(g)
        log.add("stage", [stage, dg])
        res["states"].append(dg)
        if only_stage is not None and stage != only_stage:
            continue
        # state invariants (C04 1-6, C06 tables)
        stats["state_invariant_evals"] += 1
        for prop, cls, where, detail in hier.state_invariants(g):
            v = Viol(prop, cls, where, detail)
            for r in _vrec(v, stage, None, None):
                if r["signature"] not in seen_sig:
                    seen_sig.add(r["signature"])
                    res["violations"].append(r)
            log.add("state-violation", [stage, prop, cls, where])
        nblocks = len(hier.hier_names(g))
        covered = set()
        if explicit is not None:
            scheds = explicit.get(str(stage), [])
        else:
            scheds = [None] * m
        si = -1
        extra = 0
        closed_here = None
        while True:
            si += 1
            if si < len(scheds):
                ex = scheds[si]
            else:
                # product closure (DESIGN 4.3): a (block, valuation) state is open while
                # one of its decisions has not been taken from it; when no discovered
                # state is open, every reachable (state, decision) pair of the product
                # of the original with the restructured graph has been exercised.
                # Up to m more guided schedules are spent on closing a stage.
                if explicit is not None:
                    break
                open_pairs = sum(1 for c in covered if c[0] == "state"
                                 for j in range(c[2]) if (c[1], j) not in covered)
                closed_here = open_pairs == 0
                if closed_here or extra >= m:
                    stats["open_pairs"] = stats.get("open_pairs", 0) + open_pairs
                    break
                extra += 1
                stats["extra_schedules"] = stats.get("extra_schedules", 0) + 1
                ex = None
            srng = rng.fork("%d/%d" % (stage, si))
            decisions, viols, info = run_schedule(
                g, genesis, originals, dist, nblocks, srng, covered, ex, L, stats)
            stats["schedules"] += 1
            stats["decisions"] += len(decisions)
            if info["ended"]:
                stats["schedules_ended"] += 1
            if info["ndec"] >= 3:
                long_sched = True
            arcs_taken |= info["arcs"]
            log.add("schedule", [stage, si, jdigest(decisions), [[v.prop, v.cls, v.where] for v in viols]])
            for v in viols:
                for r in _vrec(v, stage, si, decisions):
                    if r["signature"] not in seen_sig:
                        seen_sig.add(r["signature"])
                        res["violations"].append(r)
        if closed_here is False:
            all_closed = False
    kinds = hier.count_kinds(g)
    res["reach"] = {
        "arc_coverage_pct": int(100 * len(arcs_taken) / total_arcs) if total_arcs else 100,
        "regions": kinds["regions"], "branching": kinds["branching"],
        "maxdepth": kinds["maxdepth"], "n": len(genesis),
        "kind": wl["kind"] + ":" + wl.get("family", ""),
        "product_closed": int(all_closed and explicit is None and res["inconclusive"] is None),
    }
    lf = graphgen.loop_facts(genesis)
    for k in ("multi_header", "multi_exit", "multi_latch"):
        if lf[k]:
            res["reach"]["loop_" + k] = 1
    res["nontrivial"] = bool((kinds["branching"] or kinds["regions"]) and long_sched)
    res["log_digest"] = log.digest()
    if keep_log:
        res["log"] = log.events
    return res


# ---------------------------------------------------------------- replay / shrink

def case_for_violation(case, viol):
    """Self-contained replay case for one violation: explicit schedule at the
    violating stage only."""
    c = {"engine": "cosim", "workload": case["workload"], "m": 0,
         "sched_seed": case.get("sched_seed", 0), "only_stage": viol["stage"],
         "schedules": {str(viol["stage"]): ([viol["decisions"]] if viol.get("decisions") is not None else [])}}
    return c


def shrink_candidates(case, viol):
    """Yield smaller cases (DESIGN 6.2): schedule first, then workload."""
    from sim import reducers
    st = str(viol["stage"])
    scheds = case.get("schedules", {}).get(st, [])
    if scheds:
        d = scheds[0]
        # truncate, then delete pairs / single decisions
        for cut in range(len(d)):
            yield dict(case, schedules={st: [d[:cut]]})
        for i in range(len(d)):
            for w in (2, 1):
                if i + w <= len(d):
                    yield dict(case, schedules={st: [d[:i] + d[i + w:]]})
        for i in range(len(d)):
            if d[i] != 0:
                yield dict(case, schedules={st: [d[:i] + [0] + d[i + 1:]]})
    wl = case["workload"]
    if wl["kind"] == "graph":
        for nd in reducers.shrink_graph(wl["blocks"]):
            yield dict(case, workload=dict(wl, blocks=nd))
    elif wl["kind"] in ("src", "bc"):
        for ns in reducers.shrink_source(wl["source"]):
            yield dict(case, workload=dict(wl, source=ns))


def where_facts(case, viol):
    """Facts a known-finding entry may constrain (DESIGN 8.4)."""
    return {"stage": viol.get("stage"), "class": viol.get("class")}
