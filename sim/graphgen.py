"""Graph workloads (DESIGN 3.1) as explicit descriptions.

A description is a list of [name, kind, [targets...]] in insertion order, first
entry = the entry block.  kind in {"basic", "bytecode"}.  All generators return
closed CFGs in the domain of DESIGN section 9:
  exactly one block without predecessors (the entry), every block reachable
  from it, every block able to reach a block without successors, at most two
  ordered, distinct successors per block.
"""
from sim.rng import Rng

# ---------------------------------------------------------------- closedness


def check_closed(desc):
    """Return None if desc is a closed CFG of the domain, else a reason."""
    names = [d[0] for d in desc]
    if len(set(names)) != len(names):
        return "duplicate names"
    nameset = set(names)
    succ = {}
    for name, _kind, tg in desc:
        if len(tg) > 2:
            return "more than two successors"
        if len(set(tg)) != len(tg):
            return "duplicate successors"
        for t in tg:
            if t not in nameset:
                return "dangling target"
        succ[name] = list(tg)
    haspred = set()
    for name in names:
        for t in succ[name]:
            haspred.add(t)
    heads = [n for n in names if n not in haspred]
    if len(heads) != 1:
        return "not exactly one entry"
    if heads[0] != names[0]:
        return "entry is not first"
    # reachability
    seen = set()
    todo = [names[0]]
    while todo:
        n = todo.pop()
        if n in seen:
            continue
        seen.add(n)
        todo.extend(succ[n])
    if len(seen) != len(names):
        return "unreachable block"
    # co-reachability
    pred = {n: [] for n in names}
    for n in names:
        for t in succ[n]:
            pred[t].append(n)
    exits = [n for n in names if not succ[n]]
    if not exits:
        return "no exit"
    seen = set()
    todo = list(exits)
    while todo:
        n = todo.pop()
        if n in seen:
            continue
        seen.add(n)
        todo.extend(pred[n])
    if len(seen) != len(names):
        return "block cannot reach an exit"
    return None


# ---------------------------------------------------------------- name styles

def rename(desc, style, rng):
    """Apply a name style to a description with names "0".."n-1"."""
    names = [d[0] for d in desc]
    if style == "frontend":
        return desc
    if style == "zeropad":
        return zeropad_names(desc, rng)
    if style == "generator":
        kind = "basic"
        m = {n: "%s_block_%d" % (kind, i) for i, n in enumerate(names)}
    elif style == "bytecode":
        m = {n: "python_bytecode_block_%d" % i for i, n in enumerate(names)}
    elif style == "adversarial":
        # names from the generator's own namespace (C18 only)
        pool = []
        for k in ("synth_asign", "synth_exit_latch", "synth_exit", "synth_head",
                  "synth_return", "synth_tail", "synth_fill", "synth_exit_branch"):
            for i in (0, 1, 2, 3, 10, 11):
                pool.append("%s_block_%d" % (k, i))
        for k in ("loop", "head", "branch", "tail"):
            for i in range(3):
                pool.append("%s_region_%d" % (k, i))
        rng.shuffle(pool)
        m = {}
        for i, n in enumerate(names):
            # a minority of adversarial names, the rest plain
            if i > 0 and rng.chance(0.5) and pool:
                m[n] = pool.pop()
            else:
                m[n] = n
    else:
        raise ValueError(style)
    out = []
    for name, kind, tg in desc:
        out.append([m[name], "bytecode" if style == "bytecode" else kind,
                    [m[t] for t in tg]])
    return out


# ---------------------------------------------------------------- G-rand

PROFILES = {
    # weights of out-degree 0, 1, 2
    "sparse": (1, 5, 2),
    "dense": (1, 2, 6),
    "linear": (1, 8, 1),
    "branchy": (2, 3, 5),
}


def _draw_rand(rng, n, profile, self_loops):
    w = PROFILES[profile]
    names = [str(i) for i in range(n)]
    succ = {x: [] for x in names}
    # spanning arborescence guarantees reachability
    order = names[1:]
    for i, x in enumerate(order):
        cands = [p for p in names[: i + 1] if len(succ[p]) < 2]
        if not cands:
            return None
        # prefer recent nodes for depth
        p = cands[-1] if rng.chance(0.5) else rng.choice(cands)
        succ[p].append(x)
    # extra arcs
    for x in names:
        want = rng.weighted([(0, w[0]), (1, w[1]), (2, w[2])])
        tries = 0
        while len(succ[x]) < want and tries < 6:
            tries += 1
            t = rng.choice(names[1:]) if n > 1 else None
            if t is None:
                break
            if t in succ[x]:
                continue
            if t == x and not self_loops:
                continue
            succ[x].append(t)
        if len(succ[x]) == 2 and rng.chance(0.5):
            succ[x].reverse()
    return [[x, "basic", succ[x]] for x in names]


def gen_rand(rng, n, profile=None, self_loops=True):
    profile = profile or rng.choice(sorted(PROFILES))
    for _ in range(200):
        d = _draw_rand(rng, n, profile, self_loops)
        if d is not None and check_closed(d) is None:
            return d
    # fallback: a chain (always closed)
    return [[str(i), "basic", [str(i + 1)] if i + 1 < n else []] for i in range(n)]


# ---------------------------------------------------------------- G-struct

class _SB:
    """Builder of the skeleton of a random structured program."""

    def __init__(self, rng, budget):
        self.rng = rng
        self.budget = budget
        self.blocks = []  # [name, [targets]]
        self.idx = {}

    def new(self):
        name = str(len(self.blocks))
        self.blocks.append([name, []])
        self.idx[name] = len(self.blocks) - 1
        self.budget -= 1
        return name

    def arc(self, a, b):
        tg = self.blocks[self.idx[a]][1]
        if b not in tg and len(tg) < 2:
            tg.append(b)
            return True
        return False

    def seq(self, cur, depth, loop):
        """Emit a statement sequence starting in open block `cur`.
        Returns the open block at the end, or None if control never falls out.
        loop = (head, exit) of the innermost loop or None."""
        rng = self.rng
        nstm = rng.randint(1, 3)
        for _ in range(nstm):
            if cur is None or self.budget <= 0:
                break
            kind = rng.weighted([
                ("plain", 3), ("if", 4 if depth < 4 else 0),
                ("while", 3 if depth < 4 else 0),
                ("dowhile", 1 if depth < 4 else 0),
                ("break", 2 if loop else 0), ("continue", 1 if loop else 0),
                ("return", 1),
            ])
            if kind == "plain":
                nxt = self.new()
                self.arc(cur, nxt)
                cur = nxt
            elif kind == "if":
                then = self.new()
                els = self.new()
                self.arc(cur, then)
                self.arc(cur, els)
                t_end = self.seq(then, depth + 1, loop)
                e_end = self.seq(els, depth + 1, loop) if rng.chance(0.7) else els
                if t_end is None and e_end is None:
                    cur = None
                else:
                    join = self.new()
                    if t_end is not None:
                        self.arc(t_end, join)
                    if e_end is not None:
                        self.arc(e_end, join)
                    cur = join
            elif kind == "while":
                head = self.new()
                body = self.new()
                ex = self.new()
                self.arc(cur, head)
                self.arc(head, body)
                self.arc(head, ex)
                b_end = self.seq(body, depth + 1, (head, ex))
                if b_end is not None:
                    self.arc(b_end, head)
                cur = ex
            elif kind == "dowhile":
                body = self.new()
                ex = self.new()
                self.arc(cur, body)
                latch_src = self.seq(body, depth + 1, None)
                if latch_src is None:
                    cur = None
                else:
                    latch = self.new()
                    self.arc(latch_src, latch)
                    self.arc(latch, body)
                    self.arc(latch, ex)
                    cur = ex
            elif kind == "break":
                self.arc(cur, loop[1])
                cur = None
            elif kind == "continue":
                self.arc(cur, loop[0])
                cur = None
            elif kind == "return":
                cur = None  # block without successors
        return cur


def gen_struct(rng, n):
    for _ in range(100):
        b = _SB(rng, n)
        entry = b.new()
        first = b.new()
        b.arc(entry, first)
        b.seq(first, 0, None)
        d = [[name, "basic", tg] for name, tg in b.blocks]
        d = _prune_unreachable(d)
        if 2 <= len(d) <= max(n + 6, 8) and check_closed(d) is None:
            return d
    return gen_rand(rng, n)


def _prune_unreachable(desc):
    succ = {d[0]: d[2] for d in desc}
    seen = set()
    todo = [desc[0][0]]
    while todo:
        x = todo.pop()
        if x in seen:
            continue
        seen.add(x)
        todo.extend(succ[x])
    kept = [d for d in desc if d[0] in seen]
    # renumber densely
    m = {d[0]: str(i) for i, d in enumerate(kept)}
    return [[m[a], k, [m[t] for t in tg]] for a, k, tg in kept]


# ---------------------------------------------------------------- G-irred

def gen_irred(rng, n):
    base = gen_struct(rng, n) if rng.chance(0.6) else gen_rand(rng, n)
    names = [d[0] for d in base]
    k = rng.randint(1, 3)
    for _ in range(20):
        d = [[a, kd, list(tg)] for a, kd, tg in base]
        added = 0
        for _j in range(k * 3):
            src = rng.choice(d)
            if len(src[2]) >= 2:
                continue
            t = rng.choice(names[1:])
            if t in src[2]:
                continue
            src[2].append(t)
            if rng.chance(0.5):
                src[2].reverse()
            added += 1
            if added >= k:
                break
        if added and check_closed(d) is None:
            return d
    return base


# ---------------------------------------------------------------- dispatch

FAMILIES = ("rand", "struct", "irred")


def gen_sharedexit(rng, n):
    """Family "sibling loops that share their exits" (added after seeded change
    C06-8): a dispatch chain enters k loops on one level; every loop leaves
    through the same two or three exit blocks; a loop may be entered at two
    different members (two headers).  Reducible or not, always closed."""
    k = rng.randint(2, 3)
    nex = rng.randint(2, 3)
    desc = []
    names = iter(range(10 ** 6))
    nm = lambda: str(next(names))
    entry = nm()
    exits = []
    loops = []
    for _ in range(k):
        size = rng.randint(2, 3)
        members = [nm() for _ in range(size)]
        loops.append(members)
    exits = [nm() for _ in range(nex)]
    final = nm()
    # dispatch chain: entry -> d1 -> d2 ...; each dispatch block enters one loop member
    # and falls to the next dispatch block; loops with two headers get two dispatchers
    disp_targets = []
    for members in loops:
        heads = [members[0]]
        if len(members) >= 2 and rng.chance(0.6):
            heads.append(members[rng.randint(1, len(members) - 1)])
        for h in heads:
            disp_targets.append(h)
    rng.shuffle(disp_targets)
    dnames = [entry] + [nm() for _ in range(len(disp_targets) - 1)]
    blocks = {}
    for i, d in enumerate(dnames):
        if i + 1 < len(dnames):
            tg = [disp_targets[i], dnames[i + 1]]
            if rng.chance(0.5):
                tg.reverse()
        else:
            tg = [disp_targets[i]]
        blocks[d] = tg
    for members in loops:
        # a ring; every member may leave to one of the shared exits; together the
        # members of a loop use every exit at least once where possible
        ex_cycle = list(exits)
        rng.shuffle(ex_cycle)
        for j, m in enumerate(members):
            nxt = members[(j + 1) % len(members)]
            if j < len(ex_cycle) or rng.chance(0.5):
                e = ex_cycle[j % len(ex_cycle)]
                tg = [nxt, e] if rng.chance(0.5) else [e, nxt]
            else:
                tg = [nxt]
            blocks[m] = tg
        if len(members) < len(ex_cycle):
            # not enough members to use every exit: leave the rest to chance
            pass
    for e in exits:
        blocks[e] = [final] if rng.chance(0.8) else []
    blocks[final] = []
    order = dnames + [m for ms in loops for m in ms] + exits + [final]
    desc = [[name, "basic", blocks[name]] for name in order]
    if check_closed(desc) is not None:
        return gen_struct(rng.fork("fallback"), n)
    return desc


def gen_graph(rng, family, n, style="frontend"):
    if family == "sharedexit":
        d = gen_sharedexit(rng.fork("g"), n)
        # renumber to "0".."n-1" in order
        m = {name: str(i) for i, (name, _k, _t) in enumerate(d)}
        d = [[m[a], k, [m[t] for t in tg]] for a, k, tg in d]
    elif family == "rand":
        d = gen_rand(rng.fork("g"), n)
    elif family == "struct":
        d = gen_struct(rng.fork("g"), n)
    elif family == "irred":
        d = gen_irred(rng.fork("g"), n)
    else:
        raise ValueError(family)
    d = rename(d, style, rng.fork("names"))
    assert check_closed(d) is None, (check_closed(d), d)
    return d


# ---------------------------------------------------------------- building

def build_scfg(desc, prior=0):
    """Build a fresh SCFG from a description.  prior = number of other (small)
    graphs the same NameGenerator has served before: the graph's top-level
    region is then not the generator's first meta region."""
    from numba_scfg.core.datastructures.scfg import SCFG, NameGenerator
    from numba_scfg.core.datastructures.basic_block import (
        BasicBlock, PythonBytecodeBlock)
    graph = {}
    for i, (name, kind, tg) in enumerate(desc):
        if kind == "bytecode":
            graph[name] = PythonBytecodeBlock(
                name=name, _jump_targets=tuple(tg), backedges=(),
                begin=2 * i, end=2 * i + 2)
        else:
            graph[name] = BasicBlock(name=name, _jump_targets=tuple(tg),
                                     backedges=())
    name_gen = NameGenerator()
    for k in range(prior):
        other = SCFG({"p%d" % k: BasicBlock(name="p%d" % k, _jump_targets=(), backedges=())}, name_gen=name_gen)
        del other
    return SCFG(graph, name_gen=name_gen)


def describe_scfg(scfg):
    """Flat description of a (flat) SCFG: used for front-end produced graphs."""
    from numba_scfg.core.datastructures.basic_block import PythonBytecodeBlock
    out = []
    for name, b in scfg.graph.items():
        kind = "bytecode" if isinstance(b, PythonBytecodeBlock) else "basic"
        out.append([name, kind, list(b._jump_targets)])
    return out


def reorder_entry_first(desc):
    names = [d[0] for d in desc]
    haspred = set(t for d in desc for t in d[2])
    heads = [n for n in names if n not in haspred]
    if len(heads) == 1 and heads[0] != names[0]:
        h = [d for d in desc if d[0] == heads[0]]
        return h + [d for d in desc if d[0] != heads[0]]
    return desc


# ---------------------------------------------------------------- shape facts (reach probes)

def loop_facts(desc):
    """Counts of loops (non-trivial SCCs) with >=2 headers / exits / latches."""
    succ = {d[0]: list(d[2]) for d in desc}
    index = {}
    low = {}
    onstack = set()
    stack = []
    sccs = []
    counter = [0]

    def strong(v):
        # iterative Tarjan
        work = [(v, 0)]
        while work:
            node, i = work[-1]
            if i == 0:
                index[node] = low[node] = counter[0]
                counter[0] += 1
                stack.append(node)
                onstack.add(node)
            recurse = False
            ss = succ[node]
            while i < len(ss):
                w = ss[i]
                i += 1
                if w not in index:
                    work[-1] = (node, i)
                    work.append((w, 0))
                    recurse = True
                    break
                elif w in onstack:
                    low[node] = min(low[node], index[w])
            if recurse:
                continue
            work.pop()
            if work:
                parent = work[-1][0]
                low[parent] = min(low[parent], low[node])
            if low[node] == index[node]:
                comp = []
                while True:
                    w = stack.pop()
                    onstack.discard(w)
                    comp.append(w)
                    if w == node:
                        break
                sccs.append(comp)

    for v in succ:
        if v not in index:
            strong(v)
    facts = {"loops": 0, "multi_header": 0, "multi_exit": 0, "multi_latch": 0}
    for comp in sccs:
        cs = set(comp)
        if len(comp) == 1 and comp[0] not in succ[comp[0]]:
            continue
        facts["loops"] += 1
        headers = set(t for n in succ if n not in cs for t in succ[n] if t in cs)
        exits = set(t for n in cs for t in succ[n] if t not in cs)
        latches = set(n for n in cs for t in succ[n] if t in headers)
        if len(headers) >= 2:
            facts["multi_header"] += 1
        if len(exits) >= 2:
            facts["multi_exit"] += 1
        if len(latches) >= 2:
            facts["multi_latch"] += 1
    return facts


def gen_open(rng, n):
    """A flat graph of any shape with at most two distinct successors per block:
    no closedness required (unreachable blocks, dead cycles, several heads)."""
    names = [str(i) for i in range(n)]
    desc = []
    for x in names:
        k = rng.weighted([(0, 2), (1, 5), (2, 3)])
        tg = []
        for _ in range(k):
            t = rng.choice(names)
            if t not in tg:
                tg.append(t)
        desc.append([x, rng.choice(["basic", "basic", "bytecode"]), tg])
    return desc


def zeropad_names(desc, rng):
    """Name style "zeropad": some names differ from others only by leading zeros
    ('1' and '01'), which any order derived from the numeric value cannot separate."""
    names = [d[0] for d in desc]
    m = {}
    used = set()
    for i, nme in enumerate(names):
        base = str(i // 2 if i else 0)
        cand = base
        while cand in used:
            cand = "0" + cand
        if i == 0:
            cand = "0"
            if cand in used:
                cand = "00"
        used.add(cand)
        m[nme] = cand
    return [[m[a], k, [m[t] for t in tg]] for a, k, tg in desc]
