"""Turn an explicit workload description into a live SCFG (real library code)
plus its flat genesis description."""
import ast

from sim import graphgen


class Skip(Exception):
    """The workload is outside the domain (front end raised / graph not closed)."""

    def __init__(self, reason):
        Exception.__init__(self, reason)
        self.reason = reason


def compile_function(source, name=None):
    ns = {}
    code = compile(source, "<sim-workload>", "exec")
    exec(code, ns)
    if name is None:
        tree = ast.parse(source)
        name = [n.name for n in tree.body if isinstance(n, ast.FunctionDef)][0]
    return ns[name]


def resolve_ref(ref):
    import importlib
    mod, qual = ref.split(":")
    obj = importlib.import_module(mod)
    for part in qual.split("."):
        obj = getattr(obj, part)
    return obj


def build(workload):
    """Return (scfg, genesis_desc).  Raises Skip for out-of-domain workloads."""
    kind = workload["kind"]
    if kind == "graph":
        desc = workload["blocks"]
        why = graphgen.check_closed(desc)
        if why is not None and not workload.get("allow_open"):
            raise Skip("not-closed:" + why)
        return graphgen.build_scfg(desc, workload.get("prior_graphs", 0)), [[a, k, list(t)] for a, k, t in desc]
    if kind == "src":
        from numba_scfg.core.datastructures.ast_transforms import AST2SCFG
        try:
            scfg = AST2SCFG(workload["source"])
        except Exception as e:  # front end correctness is C08/C11, not decided here
            raise Skip("frontend-raised:%s" % type(e).__name__)
    elif kind in ("bc", "bcref"):
        from numba_scfg.core.datastructures.byte_flow import ByteFlow
        try:
            if kind == "bc":
                fn = compile_function(workload["source"])
            else:
                fn = resolve_ref(workload["ref"])
            scfg = ByteFlow.from_bytecode(fn).scfg
        except Exception as e:  # front end correctness is C09, not claimed
            raise Skip("frontend-raised:%s" % type(e).__name__)
    else:
        raise ValueError(kind)
    desc = graphgen.describe_scfg(scfg)
    desc2 = graphgen.reorder_entry_first(desc)
    why = graphgen.check_closed(desc2)
    if why is not None:
        raise Skip("frontend-not-closed:" + why)
    return scfg, desc2
